#!/bin/bash
# tools/seed_batch.sh <round-suffix> <src-root> <ID>...  - evaluate patch1..3 of each ID (4 evaluations in parallel); logs in <src-root>/<ID>/eval<k>.log
round=$1; root=$2; shift 2
for p in "$@"; do for k in 1 2 3; do [ -f "$root/$p/patch$k.diff" ] && echo "$p $k"; done; done | \
  xargs -P 4 -L 1 bash -c 'SEED_ROUND='"$round"' /venv/bin/python /verif/tools/seed_eval.py '"$root"'/$0 $0 $1 > '"$root"'/$0/eval$1.log 2>&1; head -3 '"$root"'/$0/eval$1.log | cut -c1-260'
