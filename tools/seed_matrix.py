#!/venv/bin/python
"""Prints the markdown catch matrix of /verif/seeded (one row per confirmed seeded change)."""
import glob, json, os
rows = []
for d in sorted(glob.glob("/verif/seeded/*")):
    m = json.load(open(os.path.join(d, "meta.json")))
    det = ", ".join("%s %s" % (k, "VIOLATION" if v else "silent") for k, v in m.get("detected_by", {}).items())
    summ = (m.get("summary") or "").replace("\n", " ").replace("|", "/")
    need = (m.get("needs_to_manifest") or "").replace("\n", " ").replace("|", "/")
    rows.append("| %s | %s | %s | %s |" % (os.path.basename(d), summ[:230], need[:200], det))
print("| seeded change | what was changed | what it needs to manifest | quick check result |\n|---|---|---|---|")
print("\n".join(rows))
