#!/bin/bash
# tools/mutant.sh <patch.diff> <tier> <ID> [<ID>...]  - run checks against a scratch copy of /repo with the patch applied.
# Evidence / replay files of these runs go to the scratch dir, never to /verif. The scratch copy is removed afterwards.
patch=$(realpath "$1"); tier=$2; shift 2
S=$(mktemp -d /var/tmp/oq_mut.XXXXXX)
rsync -a --exclude .git --exclude '__pycache__' /repo/ "$S/repo/"
if [[ "$patch" == *.sed ]]; then
  # lines: <path relative to repo><TAB><sed expression>
  while IFS=$'\t' read -r f expr; do
    [ -z "$f" ] && continue
    before=$(md5sum < "$S/repo/$f"); sed -i -E "$expr" "$S/repo/$f"; after=$(md5sum < "$S/repo/$f")
    [ "$before" == "$after" ] && { echo "SED-NO-EFFECT $f $expr"; rm -rf "$S"; exit 3; }
  done < "$patch"
else
( cd "$S/repo" && patch -p1 -s < "$patch" ) || { echo "PATCH-FAILED $patch"; rm -rf "$S"; exit 3; }
fi
cd /verif
for id in "$@"; do
  out=$(VERIF_REPO="$S/repo" VERIF_OUT="$S/out" ./check "$id" "$tier" 2>&1); rc=$?
  echo "== $(basename $(dirname $patch))/$(basename $patch) $id $tier exit=$rc :: $(echo "$out" | grep -E 'VIOLATION|HARNESS' | head -1)"
  if [ -n "$VERBOSE" ]; then echo "$out" | tail -12; fi
done
rm -rf "$S"
