#!/venv/bin/python
"""Run the pinned suite on a tree (default /repo) and compare with BASELINE.json stable_pass.
usage: run_baseline.py [repo_dir]   exit 0 iff every stable_pass test passed."""
import json, subprocess, sys, os, tempfile, xml.etree.ElementTree as ET
repo = sys.argv[1] if len(sys.argv) > 1 else '/repo'
base = json.load(open('/root/.vp/BASELINE.json'))
fd, xmlp = tempfile.mkstemp(suffix='.xml', dir='/var/tmp'); os.close(fd)
env = dict(os.environ); env.pop('ORQUESTRA_QUANTUM_VERIF', None)
env['PYTHONPATH'] = os.path.join(repo, 'src')
p = subprocess.run(['/venv/bin/python', '-m', 'pytest', '-q', '-p', 'no:cacheprovider', '--timeout=900',
                    '--continue-on-collection-errors', '--junitxml=' + xmlp], cwd=repo, env=env,
                   capture_output=True, text=True)
passed = set()
for tc in ET.parse(xmlp).getroot().iter('testcase'):
    if not any(ch.tag in ('failure', 'error', 'skipped') for ch in tc):
        passed.add(tc.get('classname') + '::' + tc.get('name'))
os.unlink(xmlp)
missing = [t for t in base['stable_pass'] if t not in passed]
print(p.stdout.strip().splitlines()[-1])
print(f'stable_pass={len(base["stable_pass"])} passed_now={len(passed)} stable_missing={len(missing)}')
for t in missing[:20]: print('  MISSING', t)
sys.exit(1 if missing else 0)
