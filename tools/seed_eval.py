#!/venv/bin/python
"""tools/seed_eval.py <src_dir> <PROP> <k> [check ids...]
Confirms a seeded change (patch<k>.diff + demo<k>.py + meta<k>.json in src_dir) in a scratch copy of /repo:
 demo exits 0 on the clean tree, non-zero on the changed tree, pinned baseline still green on the changed tree;
 then runs the given checks (default: PROP) quick against the changed tree and reports which raise a VIOLATION.
 If confirmed, stores it as /verif/seeded/<PROP>-<k>/ {patch.diff, demo.py, meta.json}."""
import json, os, shutil, subprocess, sys, tempfile
src, prop, k = sys.argv[1], sys.argv[2], sys.argv[3]
checks = sys.argv[4:] or [prop]
tier = os.environ.get("SEED_TIER", "quick")
patch = os.path.join(src, "patch%s.diff" % k); demo = os.path.join(src, "demo%s.py" % k); metaf = os.path.join(src, "meta%s.json" % k)
S = tempfile.mkdtemp(prefix="oq_seed.", dir="/var/tmp")
try:
    subprocess.run(["rsync", "-a", "--exclude", ".git", "--exclude", "__pycache__", "/repo/", S + "/repo/"], check=True)
    def rundemo(tree):
        env = dict(os.environ, PYTHONPATH=tree + "/src"); env.pop("ORQUESTRA_QUANTUM_VERIF", None)
        p = subprocess.run(["/venv/bin/python", demo], env=env, capture_output=True, text=True, timeout=600, cwd=S)
        return p.returncode, (p.stdout + p.stderr)[-600:]
    clean_rc, clean_out = rundemo("/repo")
    ap = subprocess.run(["git", "apply", "--directory", S.lstrip("/") + "/repo", "--unsafe-paths", patch], cwd="/", capture_output=True, text=True)
    if ap.returncode:
        ap = subprocess.run(["patch", "-p1", "-s", "-i", patch], cwd=S + "/repo", capture_output=True, text=True)
    if ap.returncode:
        print("PATCH FAILED", ap.stderr[-500:]); sys.exit(3)
    mut_rc, mut_out = rundemo(S + "/repo")
    b = subprocess.run(["/venv/bin/python", "/verif/tools/run_baseline.py", S + "/repo"], capture_output=True, text=True)
    base_ok = b.returncode == 0
    res = {}
    for c in checks:
        env = dict(os.environ, VERIF_REPO=S + "/repo", VERIF_OUT=S + "/out")
        p = subprocess.run(["./check", c, tier], cwd="/verif", env=env, capture_output=True, text=True)
        lines = [l for l in p.stdout.splitlines() if l.startswith(("VIOLATION", "HARNESS", "violating", "  msg"))]
        res[c] = {"exit": p.returncode, "lines": lines[:4]}
    confirmed = clean_rc == 0 and mut_rc != 0 and base_ok
    print("seed %s-%s: demo clean=%d mutant=%d baseline_ok=%s confirmed=%s" % (prop, k, clean_rc, mut_rc, base_ok, confirmed))
    if not confirmed:
        print("  clean:", clean_out[-300:]); print("  mutant:", mut_out[-300:]); print("  baseline:", b.stdout[-400:])
    for c, r in res.items():
        print("  check %s %s exit=%d %s" % (c, tier, r["exit"], " | ".join(r["lines"])[:400]))
    if confirmed:
        d = "/verif/seeded/%s%s-%s" % (prop, os.environ.get("SEED_ROUND", ""), k)
        os.makedirs(d, exist_ok=True)
        shutil.copy(patch, d + "/patch.diff"); shutil.copy(demo, d + "/demo.py")
        meta = json.load(open(metaf)) if os.path.exists(metaf) else {}
        meta.update({"property": prop, "confirmed_by_me": {"demo_clean_exit": clean_rc, "demo_mutant_exit": mut_rc, "baseline_stable_pass_all": base_ok,
                     "ran": ["PYTHONPATH=<tree>/src /venv/bin/python demo.py on /repo and on a scratch copy with patch.diff applied",
                             "/verif/tools/run_baseline.py <scratch copy>", "VERIF_REPO=<scratch copy> ./check <ID> %s" % tier]},
                     "detected_by": {c: (r["exit"] == 1) for c, r in res.items()}})
        json.dump(meta, open(d + "/meta.json", "w"), indent=1)
finally:
    shutil.rmtree(S, ignore_errors=True)
