#!/venv/bin/python
"""Regenerates /verif/MANIFEST.json from the table below; a property is claimed iff mc/props/<id>.py exists
and it has an entry in CLAIMS."""
import json, os
V = os.path.dirname(os.path.dirname(os.path.abspath(__file__)))
CLAIMS = {}
def claim(pid, technique, text, note, ref):
    CLAIMS[pid] = dict(technique=technique, text=text, note=note, ref=ref)

exec(open(os.path.join(V, "tools", "claims.py")).read())

props = [json.loads(l) for l in open(os.path.join(V, "properties.jsonl"))]
checks, na = [], []
for p in props:
    pid = p["id"]
    if pid in CLAIMS and os.path.exists(os.path.join(V, "mc", "props", pid.lower() + ".py")):
        c = CLAIMS[pid]
        checks.append({
            "property_id": pid,
            "quick_cmd": "./check %s quick" % pid,
            "thorough_cmd": "./check %s thorough" % pid,
            "evidence_file": "/verif/evidence/%s.json" % pid,
            "replay_cmd_template": "./check --replay {path}",
            "engine": "mc",
            "level_claimed": {"category": "model_checking", "text": c["text"], "design_ref": c["ref"]},
            "level_note": c["note"],
            "technique": c["technique"],
        })
    else:
        na.append({"property_id": pid, "reason": "check not built yet in this session (planned in DESIGN.md section 4); nothing is claimed for it"})
m = {
    "version": 1,
    "setup_cmd": "./check --selftest",
    "hooks": {"guard": "ORQUESTRA_QUANTUM_VERIF", "enable": "no source hooks exist: every seam (numpy RNG entry points, native-operation predicate, file targets) is reachable from outside; ./check exports ORQUESTRA_QUANTUM_VERIF=1 for form only",
              "baseline_off_cmd": "cd /repo && /venv/bin/python -m pytest -ra -q -p no:cacheprovider --timeout=900 --continue-on-collection-errors",
              "source_commits": [], "add_only": True},
    "engines": [{"name": "mc", "path": "/verif/mc", "serves_properties": [c["property_id"] for c in checks],
                 "kind_free_text": "hand-written explicit-state / small-scope explorer in Python running the real library code: E1 exhaustive enumeration of bounded program/input spaces against independent reference models, E2 breadth-first search over call histories with canonical state snapshots, E3 deviation-bounded enumeration of scripted RNG / native-predicate answers; TLC cross-check of the runner counter model with every edge replayed against the implementation"}],
    "checks": checks,
    "not_applicable": na,
    "notes": "All checks run /repo's working tree directly (sys.path points at $VERIF_REPO/src, default /repo). Known findings: /verif/known_findings.json. Exit 2 = harness error/inconclusive, never a pass.",
}
json.dump(m, open(os.path.join(V, "MANIFEST.json"), "w"), indent=1)
print("claimed:", [c["property_id"] for c in checks], "n/a:", len(na))
