claim("C03", "small-scope exhaustive enumeration of operand pairs on the real operator classes vs a dense-matrix reference model",
      "Every ordered pair of Pauli strings on <=3 qubits, coefficient grid, scalar mixes, powers, all ordered pairs of a pool of <=3-term sums, simplify and == are executed on the real classes and compared with dense matrices built from the definition of X,Y,Z; complete for the stated bounds.",
      "Trusts numpy dense arithmetic and the small-scope hypothesis (multiplication acts qubit-by-qubit; no size-dependent branch beyond 3 qubits / 3 terms). Coefficients stay away from the 1e-8 tolerance edge.",
      "DESIGN.md 4/C03")
claim("C01", "small-scope exhaustive enumeration of circuits/index tuples + exhaustive enumeration of native/non-native labelings (scripted predicate) on the real classes vs a bit-arithmetic embedding reference",
      "Every gate of the alphabet on every register width and every ordered index tuple, every circuit of bounded length over a 3-qubit operation alphabet, every ordered pair of pool circuits for concatenation, and every circuit x every one of the 2^L native/non-native labelings x initial states for simulators are executed on the real code and compared with an independent reference; complete for the stated bounds.",
      "Gate matrices themselves are taken from the library (C02/C07 decide them). Small-scope hypothesis: embedding, product order and segment threading have no size-dependent branch beyond 5 qubits / 4 operations.",
      "DESIGN.md 4/C01")
claim("C04", "small-scope exhaustive enumeration of state-preparing circuits + deviation-bounded exhaustive enumeration of scripted sampler answers (owned default_rng seam)",
      "All circuits up to the length bound over an asymmetric-state alphabet; for each, all 2^n Z-subsets, all outcome keys and every execution of the sampler within the deviation bound in both internal sampling regimes are checked against the reference state.",
      "default_rng(seed).choice is the only randomness (other entry points are trapped and would abort the check); picks restricted to entries with p > 1e-12.",
      "DESIGN.md 4/C04")
claim("C09", "small-scope exhaustive enumeration of operators, widths, matrices and polarisation states vs dense reference matrices",
      "All Pauli strings with <=3 factors on indices 0..3 with gaps, sums from a pool incl. duplicates/zero/empty, every width in [own-1, own+2], all E_ij/Pauli matrices and sums of two for the expansion, polarisation set of states for expectation values; complete for the bounds.",
      "numpy dense arithmetic; linearity of the expansion argues that unit matrices and pairs span its behaviours.",
      "DESIGN.md 4/C09")
claim("C10", "small-scope exhaustive enumeration of shot multisets x operators (exact Fraction reference) + exhaustive enumeration of mutation/query histories on one Measurements object",
      "Every multiset of bitstrings up to the width/shot bound (two list orders), every ordered list of <=3 Z-subsets as operator, Bessel on/off, every count/distribution/parity query, and every history of <=D public mutations and queries; complete for the bounds.",
      "Fraction arithmetic as oracle; floats compared at 1e-12.",
      "DESIGN.md 4/C10")
claim("C12", "explicit-state breadth-first search over assignment/binding histories on real Wavefunction objects, states de-duplicated by (representation of the amplitude store, canonical amplitude tuple), events = element/slice assignment, bind, flip; every transition compared with a list model",
      "All histories up to the depth bound from numeric, symbolic and mixed roots; every transition judged (reject => unchanged, accept => written and normalised), invariant evaluated in every state; Dicke states for all n,k in range, bit reversal on index vectors, save/load on reachable states.",
      "Canonical state = amplitude tuple (a Wavefunction has no other field). Alphabet keeps norms away from the np.isclose edge.",
      "DESIGN.md 4/C12")
claim("C13", "exhaustive enumeration of integer inputs + exhaustive (thorough) / deviation-bounded (quick) enumeration of every answer of the scripted np.random.choice seam",
      "All count lists/maxima/batch sizes/weight lists in the stated ranges are enumerated; for get_measurements_representing_distribution every RNG answer script within the bound is executed on the real code (prefix replay on fresh objects) and the shot count/support invariants checked.",
      "np.random.choice is the only randomness used (trapped otherwise); the double enforces numpy's own argument checks.",
      "DESIGN.md 4/C13")
claim("C14", "exhaustive enumeration of call histories (no state merging) on every runner kind vs a reference model of validation, execution log, counters, results and tracker file; TLC state graph of an independent TLA+ counter model (incl. backend-failure actions) with EVERY edge replayed on the real classes",
      "Every history of <=2 (quick) / <=3 (thorough, core menu) calls from a menu of valid and invalid requests on 8 runner kinds; every call is compared with the model on exception, execution log, counters of each layer, results and the tracker's JSON file.",
      "Scripted RNG with default answers; zero-width circuits, non-gate circuits under the tracker and unbound circuits inside batches are outside the alphabet.",
      "DESIGN.md 4/C14")
claim("C02", "exhaustive enumeration of the 27-entry gate table with a trigonometric cut-off: degree certificates walked from the real factories' symbolic output, then certificate-sized tensor grids that decide the identities for all real parameters",
      "Every table entry: computability, dimension, unitarity, Hermitian flag, dagger and (for the ten rotation/phase gates) the additive group law on grids with 2*deg+1 points per parameter; fixed relations exactly. With a certificate the verdict covers all real parameters.",
      "sympy evaluates its own expressions at numbers correctly; residual <= 1e-10 on the grid bounds the sup-norm by 1e-10*prod(2D+1).",
      "DESIGN.md 4/C02, 3.3")
claim("C05", "small-scope exhaustive enumeration of gates x parameter alphabet x every wrapper chain (public methods and direct dataclass nesting) x pipelines, judged by an independent structural walker",
      "Every built-in gate with a parameter alphabet (numbers, sympy numbers, shadowing and indexed symbols, expressions), custom definitions incl. unusual names, every wrapper chain up to the depth bound, 2-operation circuits, circuit sets with per-circuit definitions, through dict/JSON, files and StringIO.",
      "Symbol names are non-keyword identifiers; a plain and an indexed symbol never share a base; custom names do not collide with built-in names/markers (as the quantifier says).",
      "DESIGN.md 4/C05")
claim("C06", "small-scope exhaustive enumeration of operations x ALL symbol maps over a 4-key domain x all splits of each map",
      "Every operation of the alphabet (parametric built-ins over an expression alphabet, wrappers, a custom gate with every pair of arguments incl. its own symbols swapped, MultiPhaseOperation) under every map {alpha,beta,c,d}->V: bound parameters, matrices at two assignments, free symbols, every two-step split; power/exp must refuse; 2-operation circuits.",
      "Maps whose values mention keys (shift, swap, chain) are judged against SIMULTANEOUS substitution (section cross_maps; D28); other Mapping kinds, twin symbols, copied symbol objects and out-of-domain custom entries have their own sections. Analytic entries compared at two assignments of the remaining symbols.",
      "DESIGN.md 4/C06")
claim("C07", "small-scope exhaustive enumeration of modifier chains with a step-wise oracle on the implementation's own matrices; cut-off grids for algebraic chains over one-parameter gates",
      "All chains of depth <=2 (quick) / <=3 (thorough) with at most one transcendental modifier over 21 bases, plus transcendental-on-transcendental chains; each step judged against the definition applied to the previous step's numeric matrix, so every root cause is localised; arity, params, replace_params.",
      "Fractional powers and exp are checked at listed parameters only. Open findings D15, D18, D19 are matched by root-cause signature computed from the failing step.",
      "DESIGN.md 4/C07")
claim("C08", "small-scope exhaustive enumeration of circuits x every control position, every qubit list over a 5-element index set, every layer size/factory, every ancilla count",
      "Circuits of length <=2/3 over self-adjoint, parametric, wrapped and custom gates: inverse laws, controlled(k) for every k in 0..n against the block definition, layers, apply_gate_to_qubits on all lists of <=3 qubits with duplicates, ancilla registers.",
      "Symbolic operations are bound one by one before evaluation. Open finding D15b (inverse over fractional powers) matched by predicted matrix.",
      "DESIGN.md 4/C08")
claim("C11", "small-scope exhaustive enumeration of operators x coefficient alphabet x pipelines and of persisted artefacts x loaders",
      "Terms over indices {0,7,12,123} with a 16-value coefficient alphabet, sums with duplicates/zeros/empty, through dict/JSON (stdlib and rapidjson), files (path and open file), operator sets and the printer/parser; every artefact kind with 0/1/2 frames, real/complex, through path, open file and StringIO.",
      "|coefficient| < 1e15. Linear independence of Pauli strings makes coefficient maps a complete oracle.",
      "DESIGN.md 4/C11")
claim("C15", "exhaustive enumeration of task lists up to length 3/4 over 7 tasks of the three kinds, basis-state shot sweep across the sampler threshold, binding lists with a shared circuit object",
      "Every ordering of measurable / constant / zero-shot tasks: one result per task at its position with task-specific expected values; runner sees exactly the measurable tasks; exact values vs quadratic forms; per-task binding.",
      "Scripted sampler with default answers; basis states make values independent of sampling.",
      "DESIGN.md 4/C15")
claim("C16", "exhaustive enumeration of Pauli strings (<=3/4 qubits) with a degree-1 cut-off in s=c*t, ordered term lists with repetition x steps, and the derivative operator identity over a complete observable basis",
      "Single terms: certificate (one parametric RZ(2ct)) + 8-point grid decides all t; sums: structural certificate + matrices on a time grid; derivatives: sum_k f_k U_k^dag O U_k = d/dt[U^dag O U] for every Pauli string O; imaginary-part guard both signs.",
      "Sums/derivatives are checked at listed times (incommensurate frequencies); zero coefficients excluded from derivatives.",
      "DESIGN.md 4/C16")
claim("C17", "small-scope exhaustive enumeration of weight dictionaries, of ordered qubit lists for marginals, and of ordered pairs of a distribution pool for the distance laws",
      "All integer-weight dicts on <=2/3 bits in three key styles, rejections; every ordered list of distinct qubits on <=4 bits vs exact Fraction marginals with source snapshot; MMD/NLL/JS laws on all ordered pairs incl. equal distributions in different insertion order; save/load.",
      "Tolerances 1e-12; Gibbs bound checked with the clipping constant.",
      "DESIGN.md 4/C17")
claim("C18", "exhaustive enumeration of placements and rule lists with a trigonometric cut-off grid over the three U3 angles (degrees from the real factories), whole-circuit global-phase oracle",
      "U3 plain/1/2 controls on the certificate grid (5x7x7), every index placement, length-2 circuits with unmatched partner operations in both orders, rule-order and idempotence cases. Open finding D16 (relative phase under control) is matched by its predicted matrix; any other discrepancy is a violation.",
      "to_unitary and gate matrices as decided by C01/C02.",
      "DESIGN.md 4/C18")
claim("C19", "exhaustive enumeration of expression trees up to depth 2/3 (de-duplicated by srepr), n-ary/unevaluated variants, unsupported constructs in every small context, and all short symbol names for the natural keys",
      "Every tree of the grammar up to the bound is translated to the neutral form and back and evaluated at two assignments; supported-grammar trees must translate, others must not come back changed; natural keys against an independent scanner on all names of length <=4/5 over a 7-character alphabet.",
      "Values compared at two assignments (analytic expressions); trees that sympy itself rewrites outside the grammar may be refused.",
      "DESIGN.md 4/C19")
claim("C20", "explicit-state exploration of the operation menu over a shared object pool: the reachable state graph must be one state; all ordered pairs (triples over a core) with a differential oracle against fresh arguments",
      "Every operation the statement lists (about 130) from the initial state, all ordered pairs, thorough: all triples over a 27-operation core; state = deep public snapshot of every pool object; op2's result after op1 must equal its result on a fresh pool.",
      "Observability = public surface in mc/snapshot.py; RNG scripted.",
      "DESIGN.md 4/C20")
