claim("C03", "small-scope exhaustive enumeration of operand pairs on the real operator classes vs a dense-matrix reference model",
      "Every ordered pair of Pauli strings on <=3 qubits, coefficient grid, scalar mixes, powers, all ordered pairs of a pool of <=3-term sums, simplify and == are executed on the real classes and compared with dense matrices built from the definition of X,Y,Z; complete for the stated bounds.",
      "Trusts numpy dense arithmetic and the small-scope hypothesis (multiplication acts qubit-by-qubit; no size-dependent branch beyond 3 qubits / 3 terms). Coefficients stay away from the 1e-8 tolerance edge.",
      "DESIGN.md 4/C03")
claim("C01", "small-scope exhaustive enumeration of circuits/index tuples + exhaustive enumeration of native/non-native labelings (scripted predicate) on the real classes vs a bit-arithmetic embedding reference",
      "Every gate of the alphabet on every register width and every ordered index tuple, every circuit of bounded length over a 3-qubit operation alphabet, every ordered pair of pool circuits for concatenation, and every circuit x every one of the 2^L native/non-native labelings x initial states for simulators are executed on the real code and compared with an independent reference; complete for the stated bounds.",
      "Gate matrices themselves are taken from the library (C02/C07 decide them). Small-scope hypothesis: embedding, product order and segment threading have no size-dependent branch beyond 5 qubits / 4 operations.",
      "DESIGN.md 4/C01")
claim("C04", "small-scope exhaustive enumeration of state-preparing circuits + deviation-bounded exhaustive enumeration of scripted sampler answers (owned default_rng seam)",
      "All circuits up to the length bound over an asymmetric-state alphabet; for each, all 2^n Z-subsets, all outcome keys and every execution of the sampler within the deviation bound in both internal sampling regimes are checked against the reference state.",
      "default_rng(seed).choice is the only randomness (other entry points are trapped and would abort the check); picks restricted to entries with p > 1e-12.",
      "DESIGN.md 4/C04")
claim("C09", "small-scope exhaustive enumeration of operators, widths, matrices and polarisation states vs dense reference matrices",
      "All Pauli strings with <=3 factors on indices 0..3 with gaps, sums from a pool incl. duplicates/zero/empty, every width in [own-1, own+2], all E_ij/Pauli matrices and sums of two for the expansion, polarisation set of states for expectation values; complete for the bounds.",
      "numpy dense arithmetic; linearity of the expansion argues that unit matrices and pairs span its behaviours.",
      "DESIGN.md 4/C09")
claim("C10", "small-scope exhaustive enumeration of shot multisets x operators (exact Fraction reference) + exhaustive enumeration of mutation/query histories on one Measurements object",
      "Every multiset of bitstrings up to the width/shot bound (two list orders), every ordered list of <=3 Z-subsets as operator, Bessel on/off, every count/distribution/parity query, and every history of <=D public mutations and queries; complete for the bounds.",
      "Fraction arithmetic as oracle; floats compared at 1e-12.",
      "DESIGN.md 4/C10")
claim("C12", "explicit-state breadth-first search over assignment/binding histories on real Wavefunction objects, states de-duplicated by canonical amplitude tuple, every transition compared with a list model",
      "All histories up to the depth bound from numeric, symbolic and mixed roots; every transition judged (reject => unchanged, accept => written and normalised), invariant evaluated in every state; Dicke states for all n,k in range, bit reversal on index vectors, save/load on reachable states.",
      "Canonical state = amplitude tuple (a Wavefunction has no other field). Alphabet keeps norms away from the np.isclose edge.",
      "DESIGN.md 4/C12")
claim("C13", "exhaustive enumeration of integer inputs + exhaustive (thorough) / deviation-bounded (quick) enumeration of every answer of the scripted np.random.choice seam",
      "All count lists/maxima/batch sizes/weight lists in the stated ranges are enumerated; for get_measurements_representing_distribution every RNG answer script within the bound is executed on the real code (prefix replay on fresh objects) and the shot count/support invariants checked.",
      "np.random.choice is the only randomness used (trapped otherwise); the double enforces numpy's own argument checks.",
      "DESIGN.md 4/C13")
claim("C14", "exhaustive enumeration of call histories (no state merging) on every runner kind vs a reference model of validation, execution log, counters, results and tracker file",
      "Every history of <=2 (quick) / <=3 (thorough, core menu) calls from a menu of valid and invalid requests on 8 runner kinds; every call is compared with the model on exception, execution log, counters of each layer, results and the tracker's JSON file.",
      "Scripted RNG with default answers; zero-width circuits, non-gate circuits under the tracker and unbound circuits inside batches are outside the alphabet.",
      "DESIGN.md 4/C14")
