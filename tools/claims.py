claim("C03", "small-scope exhaustive enumeration of operand pairs on the real operator classes vs a dense-matrix reference model",
      "Every ordered pair of Pauli strings on <=3 qubits, coefficient grid, scalar mixes, powers, all ordered pairs of a pool of <=3-term sums, simplify and == are executed on the real classes and compared with dense matrices built from the definition of X,Y,Z; complete for the stated bounds.",
      "Trusts numpy dense arithmetic and the small-scope hypothesis (multiplication acts qubit-by-qubit; no size-dependent branch beyond 3 qubits / 3 terms). Coefficients stay away from the 1e-8 tolerance edge.",
      "DESIGN.md 4/C03")
