#!/venv/bin/python
"""tools/seed_recheck.py [names...]  - re-confirms stored seeded changes (/verif/seeded/<name>/) against the CURRENT /repo tree and re-runs the
checks recorded in meta.json (default: the property's own check), updating meta.json. SEED_TIER=quick|thorough, SEED_SKIP_BASELINE=1 to skip the suite.
A change whose patch no longer applies or whose demonstration no longer fails (e.g. because the defect class was repaired) is reported as OBSOLETE."""
import json, os, shutil, subprocess, sys, tempfile, glob
names = sys.argv[1:] or sorted(os.path.basename(d) for d in glob.glob("/verif/seeded/*"))
tier = os.environ.get("SEED_TIER", "quick")
for name in names:
    d = "/verif/seeded/" + name
    meta = json.load(open(d + "/meta.json"))
    prop = meta["property"]
    checks = list(meta.get("detected_by", {}).keys()) or [prop]
    if prop not in checks:
        checks.insert(0, prop)
    S = tempfile.mkdtemp(prefix="oq_seed.", dir="/var/tmp")
    try:
        subprocess.run(["rsync", "-a", "--exclude", ".git", "--exclude", "__pycache__", "/repo/", S + "/repo/"], check=True)
        def rundemo(tree):
            env = dict(os.environ, PYTHONPATH=tree + "/src"); env.pop("ORQUESTRA_QUANTUM_VERIF", None)
            p = subprocess.run(["/venv/bin/python", d + "/demo.py"], env=env, capture_output=True, text=True, timeout=900, cwd=S)
            return p.returncode
        clean = rundemo("/repo")
        ap = subprocess.run(["patch", "-p1", "-s", "-i", d + "/patch.diff"], cwd=S + "/repo", capture_output=True, text=True)
        if ap.returncode:
            print("%-10s OBSOLETE: patch does not apply to the current tree" % name); meta["status"] = "obsolete: patch does not apply"; json.dump(meta, open(d + "/meta.json", "w"), indent=1); continue
        mut = rundemo(S + "/repo")
        base_ok = True
        if not os.environ.get("SEED_SKIP_BASELINE"):
            base_ok = subprocess.run(["/venv/bin/python", "/verif/tools/run_baseline.py", S + "/repo"], capture_output=True, text=True).returncode == 0
        res = {}
        for c in checks:
            env = dict(os.environ, VERIF_REPO=S + "/repo", VERIF_OUT=S + "/out")
            p = subprocess.run(["./check", c, tier], cwd="/verif", env=env, capture_output=True, text=True)
            res[c] = p.returncode
        confirmed = clean == 0 and mut != 0 and base_ok
        meta["confirmed_by_me"] = {"demo_clean_exit": clean, "demo_mutant_exit": mut, "baseline_stable_pass_all": base_ok, "tree": subprocess.run(["git", "-C", "/repo", "rev-parse", "--short", "HEAD"], capture_output=True, text=True).stdout.strip(),
                                   "ran": ["demo.py on /repo and on a scratch copy with patch.diff applied", "tools/run_baseline.py <scratch>", "VERIF_REPO=<scratch> ./check <ID> %s" % tier]}
        meta["detected_by"] = {c: rc == 1 for c, rc in res.items()}
        meta["status"] = "confirmed" if confirmed else "not confirmed on the current tree"
        json.dump(meta, open(d + "/meta.json", "w"), indent=1)
        print("%-10s demo clean=%d mutant=%d baseline=%s confirmed=%s  checks: %s" % (name, clean, mut, base_ok, confirmed, " ".join("%s=%s" % (c, {0: "silent", 1: "VIOLATION", 2: "HARNESS-ERROR"}.get(rc, rc)) for c, rc in res.items())))
    finally:
        shutil.rmtree(S, ignore_errors=True)
