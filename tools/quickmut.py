#!/venv/bin/python
"""tools/quickmut.py <mutants.json> [tier] [jobs]
Spot mutants: each entry {name, id (check id or list), file (relative to repo), old, new [, count]} is applied by exact string
replacement to a scratch copy of /repo (under /var/tmp, removed afterwards) and the named checks are run against it.
Prints one line per mutant: caught (exit 1) / MISSED (exit 0) / harness (exit 2).  Nothing is written to /verif or /repo."""
import json, os, shutil, subprocess, sys, tempfile
from concurrent.futures import ThreadPoolExecutor

muts = json.load(open(sys.argv[1]))
tier = sys.argv[2] if len(sys.argv) > 2 else "quick"
jobs = int(sys.argv[3]) if len(sys.argv) > 3 else 3


def one(m):
    S = tempfile.mkdtemp(prefix="oq_qm.", dir="/var/tmp")
    try:
        subprocess.run(["rsync", "-a", "--exclude", ".git", "--exclude", "__pycache__", "/repo/", S + "/repo/"], check=True)
        edits = m.get("edits") or [m]
        for e in edits:
            p = os.path.join(S, "repo", e["file"])
            s = open(p).read()
            if s.count(e["old"]) != e.get("count", 1):
                return "%s: PATTERN count=%d (wanted %d) in %s" % (m["name"], s.count(e["old"]), e.get("count", 1), e["file"])
            open(p, "w").write(s.replace(e["old"], e["new"]))
        imp = subprocess.run(["/venv/bin/python", "-c", "import orquestra.quantum.circuits, orquestra.quantum.operators, orquestra.quantum.measurements, orquestra.quantum.distributions, orquestra.quantum.wavefunction, orquestra.quantum.estimation, orquestra.quantum.evolution, orquestra.quantum.decompositions"],
                             env=dict(os.environ, PYTHONPATH=S + "/repo/src"), capture_output=True, text=True)
        if imp.returncode:
            return "%s: IMPORT FAILS %s" % (m["name"], imp.stderr[-200:])
        out = []
        ids = m["id"] if isinstance(m["id"], list) else [m["id"]]
        for cid in ids:
            env = dict(os.environ, VERIF_REPO=S + "/repo", VERIF_OUT=S + "/out", VERIF_PROCS=os.environ.get("VERIF_PROCS", "5"))
            r = subprocess.run(["./check", cid, tier], cwd="/verif", env=env, capture_output=True, text=True)
            line = [l for l in r.stdout.splitlines() if l.startswith(("violating", "HARNESS"))][:1]
            msg = [l for l in r.stdout.splitlines() if l.startswith("  msg")][:1]
            out.append("%s %s exit=%d %s %s" % (cid, {0: "MISSED", 1: "caught", 2: "HARNESS"}.get(r.returncode, "?"), r.returncode,
                                               (line[0][:230] if line else ""), (msg[0][:200] if msg else "")))
        return "%s: %s" % (m["name"], " || ".join(out))
    finally:
        shutil.rmtree(S, ignore_errors=True)


with ThreadPoolExecutor(jobs) as ex:
    for res in ex.map(one, muts):
        print(res, flush=True)
