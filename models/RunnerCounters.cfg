SPECIFICATION Spec
CONSTANT MaxC = 5
INVARIANT TypeOK
INVARIANT JobsAreCircuitsOnBaseRunner
INVARIANT WrapperNeverAhead
PROPERTY Monotone
