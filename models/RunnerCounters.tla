---------------------------- MODULE RunnerCounters ----------------------------
(* Counter protocol of a BaseCircuitRunner (ic, ij) wrapped by a MeasurementTrackingBackend (tc, tj),
   written independently of /verif/mc/ref/runner.py from the statement of property C14:
   - an invalid request is rejected before anything runs: no counter changes;
   - a valid single run executes one circuit as one job on the wrapped runner; a valid batch of k circuits executes k circuits
     (the base class runs them one by one: k jobs); a valid sampled-distribution request is one run;
   - the wrapper counts one circuit and one job per single run, k circuits and one job per batch, nothing for a distribution request;
   - a request that passes validation but whose backend fails part-way (the wrapped runner raises for one circuit) surfaces as an error; the wrapped runner has counted exactly the
     circuits it completed before the failure, nothing is taken back (round 6: RunFail, BatchFail0of2 = [P, ok], BatchFail2of3 = [ok, ok, P]); what the wrapper counts for a failed call is
     not fixed by the statement (the replay only demands that its counters do not decrease) - the model keeps them unchanged;
   - counters never decrease.
   TLC enumerates the whole state graph below MaxC; /verif/mc/tlc.py replays EVERY edge against the real classes. *)
EXTENDS Naturals
CONSTANT MaxC
VARIABLES ic, ij, tc, tj
vars == <<ic, ij, tc, tj>>

Init == ic = 0 /\ ij = 0 /\ tc = 0 /\ tj = 0

RunOk == ic + 1 <= MaxC /\ tj + 1 <= MaxC /\ ic' = ic + 1 /\ ij' = ij + 1 /\ tc' = tc + 1 /\ tj' = tj + 1
RunBad == UNCHANGED vars
BatchOk0 == tj + 1 <= MaxC /\ ic' = ic /\ ij' = ij /\ tc' = tc /\ tj' = tj + 1
BatchOk1 == ic + 1 <= MaxC /\ tj + 1 <= MaxC /\ ic' = ic + 1 /\ ij' = ij + 1 /\ tc' = tc + 1 /\ tj' = tj + 1
BatchOk2 == ic + 2 <= MaxC /\ tj + 1 <= MaxC /\ ic' = ic + 2 /\ ij' = ij + 2 /\ tc' = tc + 2 /\ tj' = tj + 1
BatchOk3 == ic + 3 <= MaxC /\ tj + 1 <= MaxC /\ ic' = ic + 3 /\ ij' = ij + 3 /\ tc' = tc + 3 /\ tj' = tj + 1
BatchBadLength == UNCHANGED vars
BatchBadEntry == UNCHANGED vars
DistOk == ic + 1 <= MaxC /\ ic' = ic + 1 /\ ij' = ij + 1 /\ UNCHANGED <<tc, tj>>
DistBad == UNCHANGED vars
RunFail == UNCHANGED vars
BatchFail0of2 == UNCHANGED vars
BatchFail2of3 == ic + 2 <= MaxC /\ ic' = ic + 2 /\ ij' = ij + 2 /\ UNCHANGED <<tc, tj>>

Next == RunOk \/ RunBad \/ BatchOk0 \/ BatchOk1 \/ BatchOk2 \/ BatchOk3 \/ BatchBadLength \/ BatchBadEntry \/ DistOk \/ DistBad \/ RunFail \/ BatchFail0of2 \/ BatchFail2of3
Spec == Init /\ [][Next]_vars

TypeOK == ic \in 0..MaxC /\ ij \in 0..MaxC /\ tc \in 0..MaxC /\ tj \in 0..MaxC
JobsAreCircuitsOnBaseRunner == ic = ij
WrapperNeverAhead == tc <= ic   \* (an empty batch is one wrapper job and zero wrapped jobs, so tj <= ij is NOT an invariant - found by TLC)
Monotone == [][ic' >= ic /\ ij' >= ij /\ tc' >= tc /\ tj' >= tj]_vars
=============================================================================
