"""JSON gate / operation / circuit descriptors -> real library objects, plus numeric evaluation helpers.

gate descriptor:
  {"g": "RX", "p": [0.3]}            built-in (parameters: numbers or strings understood by lib.param)
  {"g": "custom2"} / {"g": "custom2p", "p": [..]}   custom definitions below
  {"w": "controlled", "k": 2, "of": G} | {"w": "dagger", "of": G} | {"w": "power", "e": 3, "of": G} | {"w": "exp", "of": G}
operation descriptor: {"gate": G, "q": [i, j]}  |  {"mp": [theta_0, ...]} (MultiPhaseOperation)
circuit descriptor:   {"ops": [...], "n": width or null}
"""
from functools import lru_cache

import numpy as np
import sympy

from mc.lib import param


def _fixed_unitary(d, salt):
    """deterministic dense complex unitary without symmetries (QR of a fixed trigonometric table)"""
    A = np.array([[np.sin(1.0 + 3 * i + 7 * j + salt) + 1j * np.cos(2.0 + 5 * i + j * j + 0.5 * salt) for j in range(d)] for i in range(d)])
    Q, R = np.linalg.qr(A)
    ph = np.diag(R) / np.abs(np.diag(R))
    return Q * ph


CUSTOM_NUMERIC = {"custom1": _fixed_unitary(2, 0.0), "custom2": _fixed_unitary(4, 1.0), "custom3": _fixed_unitary(8, 2.0),
                  # complex-SYMMETRIC but not Hermitian (transpose == itself, adjoint != itself): user-defined S-like and ISWAP-like gates
                  # user-defined matrices that are NOT diagonalisable (a definition accepts any matrix; modifiers are defined by matrix functions, which exist for these too)
                  "customnil": np.array([[0, 1], [0, 0]]), "customjordan": np.array([[1, 1], [0, 1]]), "customjordanc": np.array([[1j, 1], [0, 1j]]),
                  "customcascade": np.array([[1, 0, 0, 0], [0, 1, 0, 0], [0.5, 0, 1, 0], [0, -0.25j, 0, 1]]),
                  # custom definitions that BORROW THE NAME of a built-in gate family but are other matrices (descriptor "custom:<name>")
                  "custom:RY": np.array([[1, 0], [0, 1j]]), "custom:RZ": np.array([[0, 1j], [1, 0]]), "custom:XX": np.diag([1, 1j, -1, np.exp(0.3j)]), "custom:U3": np.array([[0, 1], [1j, 0]]),
                  "customsym1": np.array([[1, 0], [0, 1j]]), "customsym2": np.array([[1, 0, 0, 0], [0, 0, 1j, 0], [0, 1j, 0, 0], [0, 0, 0, np.exp(0.3j)]])}


@lru_cache(maxsize=None)
def custom_definition(name):
    from orquestra.quantum import circuits as C
    if name in CUSTOM_NUMERIC:
        M = sympy.Matrix([[complex(x) for x in row] for row in CUSTOM_NUMERIC[name].tolist()])
        return C.CustomGateDefinition(name[7:] if name.startswith("custom:") else name, M, ())
    if name == "customroot1":   # exact entries in which the imaginary unit hides inside roots of -1 (no explicit I)
        return C.CustomGateDefinition(name, sympy.Matrix([[sympy.root(-1, 3), 0], [0, sympy.root(-1, 5) ** 2]]), ())
    a, b = sympy.Symbol("alpha"), sympy.Symbol("beta")
    if name == "custom1p":      # one qubit, two parameters, not symmetric in (alpha, beta)
        M = sympy.Matrix([[sympy.cos(a / 2), -sympy.exp(sympy.I * b) * sympy.sin(a / 2)],
                          [sympy.exp(-sympy.I * b) * sympy.sin(a / 2), sympy.cos(a / 2)]])
        return C.CustomGateDefinition(name, M, (a, b))
    if name == "custom2p":      # two qubits, two parameters
        M = sympy.Matrix([[sympy.exp(sympy.I * a), 0, 0, 0], [0, sympy.cos(b), -sympy.sin(b), 0],
                          [0, sympy.sin(b), sympy.cos(b), 0], [0, 0, 0, sympy.exp(-sympy.I * a * 2)]])
        return C.CustomGateDefinition(name, M, (a, b))
    if name == "custom1s":      # one parameter under square roots: real only for 0 <= alpha <= 1, complex (but perfectly well defined) outside
        M = sympy.Matrix([[sympy.sqrt(a), -sympy.sqrt(1 - a)], [sympy.sqrt(1 - a), sympy.sqrt(a)]])
        return C.CustomGateDefinition(name, M, (a,))
    if name == "custom1l":      # log / acos entries
        M = sympy.Matrix([[sympy.log(a), 0], [0, sympy.acos(a)]])
        return C.CustomGateDefinition(name, M, (a,))
    if name == "customz":       # diag(1, zeta): unitary exactly for the unit-modulus COMPLEX values of its parameter
        z = sympy.Symbol("zeta")
        return C.CustomGateDefinition(name, sympy.Matrix([[1, 0], [0, z]]), (z,))
    if name == "custom1q":      # one qubit, one parameter named gamma (shadows sympy.gamma)
        g = sympy.Symbol("gamma")
        M = sympy.Matrix([[1, 0], [0, sympy.exp(sympy.I * g)]])
        return C.CustomGateDefinition(name, M, (g,))
    raise KeyError(name)


def mk_gate(d):
    from orquestra.quantum import circuits as C
    if "w" in d:
        inner = mk_gate(d["of"])
        w = d["w"]
        if w == "controlled":
            return inner.controlled(d["k"])
        if w == "dagger":
            return inner.dagger
        if w == "power":
            e = d["e"]
            if isinstance(e, str):
                num, den = e.split("/")
                e = int(num) / int(den)
            return inner.power(e)
        if w == "exp":
            return inner.exp
        raise ValueError(w)
    name = d["g"]
    ps = tuple(param(p) for p in d.get("p", []))
    if name.startswith("custom"):
        return custom_definition(name)(*ps)
    ref = C.builtin_gate_by_name(name) if hasattr(C, "builtin_gate_by_name") else getattr(C, name)
    if callable(ref) and not hasattr(ref, "matrix"):
        return ref(*ps)
    return ref


def mk_op(d):
    from orquestra.quantum import circuits as C
    if "mp" in d:
        return C.MultiPhaseOperation(tuple(param(p) for p in d["mp"]))
    return mk_gate(d["gate"])(*d["q"])


def mk_circuit(d):
    from orquestra.quantum import circuits as C
    ops = [mk_op(o) for o in d["ops"]]
    return C.Circuit(ops, n_qubits=d.get("n")) if d.get("n") else C.Circuit(ops)


def num(M, subs=None):
    """numpy complex array of a numpy / sympy matrix (after substituting `subs`)"""
    if isinstance(M, np.ndarray):
        return M.astype(complex)
    if subs:
        M = M.subs(subs) if hasattr(M, "subs") else M
    return np.array(sympy.Matrix(M).evalf(), dtype=complex) if hasattr(M, "evalf") else np.array(M, dtype=complex)


def gate_num(gate, subs=None):
    return num(gate.matrix, subs)


def arity(d):
    """number of qubits of a gate descriptor without touching the library"""
    if "w" in d:
        return arity(d["of"]) + (d["k"] if d["w"] == "controlled" else 0)
    n = d["g"]
    if n == "named":
        return 1
    if n in ("custom2", "customsym2", "custom2p", "customcascade", "custom:XX", "CNOT", "CZ", "SWAP", "ISWAP", "CPHASE", "XX", "YY", "ZZ", "XY", "MS"):
        return 2
    if n == "custom3":
        return 3
    return 1


def G(name, *p):
    return {"g": name, "p": list(p)} if p else {"g": name}


def W(kind, of, **kw):
    return {"w": kind, "of": of, **kw}
