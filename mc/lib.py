"""Adapters from the library's objects to plain data (used by oracles) and from JSON case descriptors to
library objects (used by case functions).  Only public API is used."""
import numpy as np, sympy

SYMS = {}


def sym(name):
    return sympy.Symbol(name)


def param(p):
    """number stays a Python number; 's:<expr>' -> sympy expression over plain symbols; 'r:a/b' Rational"""
    if isinstance(p, str):
        if p.startswith("s:"):
            txt = p[2:]
            names = set()
            import re
            for m in re.finditer(r"[A-Za-z_][A-Za-z_0-9]*(\[[0-9]+\])?", txt):
                names.add(m.group(0))
            loc = {nm: sympy.Symbol(nm) for nm in names if nm not in ("cos", "sin", "exp", "pi", "sqrt", "tan")}
            # indexed names such as x[3] cannot go through sympify: substitute placeholders
            repl = {}
            for i, nm in enumerate(sorted([x for x in loc if "[" in x], key=len, reverse=True)):
                ph = "IDX%dPH" % i
                txt = txt.replace(nm, ph)
                repl[ph] = loc.pop(nm)
            loc.update({ph: s for ph, s in repl.items()})
            loc["pi"] = sympy.pi
            e = sympy.sympify(txt, locals=loc)
            return e
        if p.startswith("c:"):       # a complex number: "c:<re>,<im>"
            re_, im_ = p[2:].split(",")
            return complex(float(re_), float(im_))
        if p.startswith("f:"):
            return sympy.Float(float(p[2:]))
        if p.startswith("r:"):
            a, b = p[2:].split("/")
            return sympy.Rational(int(a), int(b))
        raise ValueError(p)
    return p


def term_data(t):
    """(coefficient, {qubit: op}) of a PauliTerm through public accessors"""
    return (complex(t.coefficient), {int(q): op for q, op in t.operations})


def op_terms(o):
    """list of (coefficient, ops) for a PauliTerm or PauliSum"""
    return [term_data(t) for t in o.terms]


def mk_term(desc):
    """desc = [coef, {"q": "X", ...}] or [coef, "X0*Y2"]; coef: number | [re, im] | 'int:3'"""
    from orquestra.quantum.operators import PauliTerm
    c, ops = desc
    c = coef(c)
    if isinstance(ops, str):
        return PauliTerm(ops, c) if ops else PauliTerm("I0", c)
    return PauliTerm({int(q): p for q, p in ops.items()}, c)


def coef(c):
    if isinstance(c, list):
        return complex(c[0], c[1])
    return c


def mk_sum(desc):
    from orquestra.quantum.operators import PauliSum
    return PauliSum([mk_term(t) for t in desc])


def mk_op(desc):
    """{'t': term} | {'s': [terms]} | {'n': number}"""
    if "t" in desc:
        return mk_term(desc["t"])
    if "s" in desc:
        return mk_sum(desc["s"])
    return coef(desc["n"])
