"""Reference model of the runner protocol (C14): what a call must do to counters, execution log and results.

A runner kind is one of  mock | mock_more | symbolic | basesim | track:<inner>[:bits]
An event is  ["run", ci, n] | ["batch", [ci...], ns] | ["dist", ci, n_or_None]
Circuits are described by (width, n_ops, segments, native_segments_for_basesim, bound?) - see CIRCUITS in props/c14.py."""


def inner_kind(kind):
    return kind.split(":")[1] if kind.startswith("track") else kind


def is_sim(kind):
    return inner_kind(kind) in ("symbolic", "basesim")


def request_valid(kind, ev, circuits):
    """(valid, reason) - validity of the request as the statement defines it (+ unbound circuits on simulators, n=None on non-simulators)"""
    t = ev[0]
    if t == "run":
        if ev[2] <= 0:
            return False, "non-positive sample count"
        if is_sim(kind) and not circuits[ev[1]]["bound"]:
            return False, "unbound circuit on a simulator"
        return True, ""
    if t == "batch":
        batch, ns = ev[1], ev[2]
        per = [ns] * len(batch) if isinstance(ns, int) else list(ns)
        if len(per) != len(batch):
            return False, "per-circuit list of the wrong length"
        if any(n <= 0 for n in per):
            return False, "non-positive entry"
        return True, ""
    if t == "dist":
        if ev[2] is None:
            if not is_sim(kind):
                return False, "exact distribution needs a simulator"
        elif ev[2] <= 0:
            return False, "non-positive sample count"
        if is_sim(kind) and not circuits[ev[1]]["bound"]:
            return False, "unbound circuit on a simulator"
        return True, ""
    raise ValueError(t)


def executed(kind, ev, circuits):
    """list of (circuit index, requested shots or None) the innermost runner must execute for a VALID request, in order"""
    if ev[0] == "run":
        return [(ev[1], ev[2])]
    if ev[0] == "batch":
        ns = ev[2]
        per = [ns] * len(ev[1]) if isinstance(ns, int) else list(ns)
        return list(zip(ev[1], per))
    return [(ev[1], ev[2])]


def inner_counter_delta(kind, ev, circuits):
    """(d_circuits, d_jobs) of the innermost runner for a valid request"""
    k = inner_kind(kind)
    dc = dj = 0
    for ci, _ in executed(kind, ev, circuits):
        c = circuits[ci]
        if k == "symbolic":
            seg = 1 if c["n_ops"] else 0
            dc += seg
            dj += seg
        elif k == "basesim":
            dc += c["native_segments"]
            dj += c["segments"]
        else:
            dc += 1
            dj += 1
    if k == "mock_batch" and ev[0] == "batch":
        return len(ev[1]), 1          # the dedicated batch implementation counts one job per batch
    return dc, dj


def tracker_counter_delta(ev):
    """(d_circuits, d_jobs) of the tracking wrapper itself for a valid request; None = not fixed by the statement (must not decrease)"""
    if ev[0] == "run":
        return (1, 1)
    if ev[0] == "batch":
        return (len(ev[1]), 1)
    return None
