"""First-principles self tests of the reference models (MANIFEST.setup_cmd)."""
import sys
import numpy as np
from mc.ref import linalg as L, pauli as P


def main():
    X = np.array([[0, 1], [1, 0]]); Z = np.diag([1, -1]); Y = np.array([[0, -1j], [1j, 0]])
    CNOT = np.array([[1, 0, 0, 0], [0, 1, 0, 0], [0, 0, 0, 1], [0, 0, 1, 0]])
    n_checks = 0
    for n in range(1, 5):
        for q in range(n):
            M = L.embed(X, (q,), n)
            for i in range(2 ** n):
                col = np.zeros(2 ** n); col[i] = 1
                out = M @ col
                j = i ^ (1 << (n - 1 - q))
                assert out[j] == 1 and abs(out).sum() == 1, "embed X"
                n_checks += 1
    for n in range(2, 5):
        for a in range(n):
            for b in range(n):
                if a == b:
                    continue
                M = L.embed(CNOT, (a, b), n)
                for i in range(2 ** n):
                    ba = L.bit(i, a, n)
                    j = i ^ (ba << (n - 1 - b))
                    assert M[j, i] == 1 and abs(M[:, i]).sum() == 1, "embed CNOT"
                    n_checks += 1
    # Pauli algebra from the definition
    pm = {p: P.string_matrix({0: p}, 1) for p in "XYZ"}
    assert np.allclose(pm["X"], X) and np.allclose(pm["Y"], Y) and np.allclose(pm["Z"], Z)
    assert np.allclose(pm["X"] @ pm["Y"], 1j * pm["Z"]) and np.allclose(pm["Y"] @ pm["Z"], 1j * pm["X"]) and np.allclose(pm["Z"] @ pm["X"], 1j * pm["Y"])
    assert np.allclose(P.string_matrix({0: "X", 2: "Z"}, 3), np.kron(np.kron(X, np.eye(2)), Z))
    assert np.allclose(L.controlled(X, 1), CNOT)
    assert np.allclose(L.expm(1j * 0.3 * X), np.cos(0.3) * np.eye(2) + 1j * np.sin(0.3) * X)
    assert [L.bitrev(i, 3) for i in range(8)] == [0, 4, 2, 6, 1, 5, 3, 7]
    # coefficient-map algebra agrees with dense matrices on all ordered pairs of 2-qubit strings
    import itertools
    strs = [{q: p for q, p in zip((0, 1), ps) if p != "I"} for ps in itertools.product("IXYZ", repeat=2)]
    for a in strs:
        for b in strs:
            ma = {tuple(sorted(a.items())): 2.0}
            mb = {tuple(sorted(b.items())): 1j}
            prod = P.map_mul(ma, mb)
            dense = sum(c * P.string_matrix(dict(k), 2) for k, c in prod.items())
            assert np.allclose(dense, (2.0 * P.string_matrix(a, 2)) @ (1j * P.string_matrix(b, 2)))
    from mc.ref import stats
    stats.selftest()
    print("reference-model selftest ok (%d basis-state checks)" % n_checks)
    return 0


if __name__ == "__main__":
    sys.exit(main())
