"""Dense reference linear algebra written from the definitions (bit arithmetic, no Kronecker products,
no permutation matrices).  Convention of the statements: qubit 0 is the MOST significant bit of a
basis-state index; the first listed qubit of a gate is the most significant bit of the gate's own index."""
import numpy as np


def bit(index, q, n):
    """value of qubit q in basis index `index` of an n-qubit register (qubit 0 = most significant)"""
    return (index >> (n - 1 - q)) & 1


def embed(M, qubits, n):
    """2^n x 2^n matrix acting as M on the ordered tuple `qubits` and as identity elsewhere."""
    M = np.asarray(M, dtype=complex)
    k = len(qubits)
    assert M.shape == (2 ** k, 2 ** k) and len(set(qubits)) == k and all(0 <= q < n for q in qubits)
    N = 2 ** n
    out = np.zeros((N, N), dtype=complex)
    for col in range(N):
        sub_in = 0
        for q in qubits:
            sub_in = (sub_in << 1) | bit(col, q, n)
        for sub_out in range(2 ** k):
            amp = M[sub_out, sub_in]
            if amp == 0:
                continue
            row = col
            for pos, q in enumerate(qubits):
                b = (sub_out >> (k - 1 - pos)) & 1
                shift = n - 1 - q
                row = (row & ~(1 << shift)) | (b << shift)
            out[row, col] += amp
    return out


def controlled(M, k):
    """identity on the first 2^n(2^k-1) basis states, then M (controls are the first k qubits)."""
    M = np.asarray(M, dtype=complex)
    d = M.shape[0]
    D = d * 2 ** k
    out = np.zeros((D, D), dtype=complex)
    for i in range(D - d):
        out[i, i] = 1
    out[D - d:, D - d:] = M
    return out


def bitrev(i, n):
    r = 0
    for q in range(n):
        r |= ((i >> q) & 1) << (n - 1 - q)
    return r


def expm(M):
    """matrix exponential by scaling and squaring of the Taylor series (independent of sympy / scipy)."""
    M = np.asarray(M, dtype=complex)
    nrm = np.linalg.norm(M, 1)
    s = max(0, int(np.ceil(np.log2(max(nrm, 1e-16)))) + 1)
    A = M / (2 ** s)
    term = np.eye(M.shape[0], dtype=complex)
    out = term.copy()
    for j in range(1, 30):
        term = term @ A / j
        out = out + term
    for _ in range(s):
        out = out @ out
    return out


def is_global_phase_of_identity(W, atol=1e-8):
    W = np.asarray(W, dtype=complex)
    d = W.shape[0]
    ph = W[0, 0]
    return abs(abs(ph) - 1) < atol and np.allclose(W, ph * np.eye(d), atol=atol, rtol=0)


def to_np(M):
    """numpy complex array of a numeric sympy / numpy matrix"""
    return np.array(M, dtype=complex)


def maxdiff(A, B):
    A = np.asarray(A, dtype=complex)
    B = np.asarray(B, dtype=complex)
    if A.shape != B.shape:
        return float("inf")
    return float(np.max(np.abs(A - B))) if A.size else 0.0


def allclose(a, b, atol=1e-8, rtol=1e-11, **kw):
    """numpy's allclose with its default RELATIVE tolerance of 1e-5 switched off (an error of 1e-7 on an O(1) entry is an error); the small rtol only absorbs
    floating-point rounding of large entries"""
    return bool(np.allclose(a, b, atol=atol, rtol=rtol, **kw))
