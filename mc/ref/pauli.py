"""Reference semantics of Pauli strings written from the definitions:
X|b> = |1-b>,  Y|0> = i|1>, Y|1> = -i|0>,  Z|b> = (-1)^b |b>;  qubit 0 is the leftmost tensor factor
(= most significant bit of the basis index)."""
import numpy as np

PHASE = {("X", 0): 1, ("X", 1): 1, ("Y", 0): 1j, ("Y", 1): -1j, ("Z", 0): 1, ("Z", 1): -1, ("I", 0): 1, ("I", 1): 1}
FLIP = {"X": 1, "Y": 1, "Z": 0, "I": 0}


def string_matrix(ops, n):
    """ops: dict qubit -> 'X'|'Y'|'Z'|'I'; returns dense 2^n matrix."""
    N = 2 ** n
    M = np.zeros((N, N), dtype=complex)
    for col in range(N):
        row, amp = col, 1
        for q, p in ops.items():
            q = int(q)
            assert 0 <= q < n
            b = (col >> (n - 1 - q)) & 1
            amp = amp * PHASE[(p, b)]
            if FLIP[p]:
                row ^= 1 << (n - 1 - q)
        M[row, col] += amp
    return M


def sum_matrix(terms, n):
    """terms: list of (coefficient, ops-dict)"""
    M = np.zeros((2 ** n, 2 ** n), dtype=complex)
    for c, ops in terms:
        M = M + complex(c) * string_matrix(ops, n)
    return M


def coeff_map(terms):
    """canonical {sorted ops tuple: coefficient} map; Pauli strings are linearly independent so two
    operators denote the same matrix iff their maps agree (zero coefficients dropped by the caller)."""
    out = {}
    for c, ops in terms:
        key = tuple(sorted((int(q), p) for q, p in ops.items() if p != "I"))
        out[key] = out.get(key, 0) + complex(c)
    return out


# ---- coefficient-map algebra (no dense matrices: usable for qubit indices of any size) --------------------------------------------
_P2 = {"I": np.eye(2, dtype=complex), "X": np.array([[0, 1], [1, 0]], dtype=complex), "Y": np.array([[0, -1j], [1j, 0]], dtype=complex), "Z": np.array([[1, 0], [0, -1]], dtype=complex)}
# single-qubit table derived from the 2x2 matrices themselves: P.Q = phase * R
TABLE = {}
for _a, _A in _P2.items():
    for _b, _B in _P2.items():
        _prod = _A @ _B
        for _r, _R in _P2.items():
            _ph = np.trace(_R.conj().T @ _prod) / 2
            if abs(_ph) > 0.5:
                TABLE[(_a, _b)] = (_r, complex(_ph))


def map_mul(a, b):
    """product of two coefficient maps {sorted ((q, P), ...): c}"""
    out = {}
    for ka, ca in a.items():
        for kb, cb in b.items():
            da, db = dict(ka), dict(kb)
            ph, res = 1, {}
            for q in set(da) | set(db):
                r, f = TABLE[(da.get(q, "I"), db.get(q, "I"))]
                ph *= f
                if r != "I":
                    res[q] = r
            key = tuple(sorted(res.items()))
            out[key] = out.get(key, 0) + ca * cb * ph
    return out


def map_add(a, b, sign=1):
    out = dict(a)
    for k, c in b.items():
        out[k] = out.get(k, 0) + sign * c
    return out
