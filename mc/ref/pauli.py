"""Reference semantics of Pauli strings written from the definitions:
X|b> = |1-b>,  Y|0> = i|1>, Y|1> = -i|0>,  Z|b> = (-1)^b |b>;  qubit 0 is the leftmost tensor factor
(= most significant bit of the basis index)."""
import numpy as np

PHASE = {("X", 0): 1, ("X", 1): 1, ("Y", 0): 1j, ("Y", 1): -1j, ("Z", 0): 1, ("Z", 1): -1, ("I", 0): 1, ("I", 1): 1}
FLIP = {"X": 1, "Y": 1, "Z": 0, "I": 0}


def string_matrix(ops, n):
    """ops: dict qubit -> 'X'|'Y'|'Z'|'I'; returns dense 2^n matrix."""
    N = 2 ** n
    M = np.zeros((N, N), dtype=complex)
    for col in range(N):
        row, amp = col, 1
        for q, p in ops.items():
            q = int(q)
            assert 0 <= q < n
            b = (col >> (n - 1 - q)) & 1
            amp = amp * PHASE[(p, b)]
            if FLIP[p]:
                row ^= 1 << (n - 1 - q)
        M[row, col] += amp
    return M


def sum_matrix(terms, n):
    """terms: list of (coefficient, ops-dict)"""
    M = np.zeros((2 ** n, 2 ** n), dtype=complex)
    for c, ops in terms:
        M = M + complex(c) * string_matrix(ops, n)
    return M


def coeff_map(terms):
    """canonical {sorted ops tuple: coefficient} map; Pauli strings are linearly independent so two
    operators denote the same matrix iff their maps agree (zero coefficients dropped by the caller)."""
    out = {}
    for c, ops in terms:
        key = tuple(sorted((int(q), p) for q, p in ops.items() if p != "I"))
        out[key] = out.get(key, 0) + complex(c)
    return out
