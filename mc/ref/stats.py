"""Exact sample statistics in Fractions, straight from the definitions."""
from fractions import Fraction as F


def eig(shot, qubits):
    """+-1 eigenvalue of the Z-string on `qubits` for one measured tuple"""
    return -1 if sum(shot[q] for q in qubits) % 2 else 1


def mean(xs):
    return sum(xs, F(0)) / len(xs)


def selftest():
    assert eig((1, 0, 1), [0, 2]) == 1 and eig((1, 0, 1), [0]) == -1 and eig((0, 0), []) == 1
    assert mean([F(1), F(-1), F(1), F(1)]) == F(1, 2)
