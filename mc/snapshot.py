"""Deep, public-API-only canonical forms of library objects and plain arguments (used by C20, C05, C11, C15).
Canonical forms are JSON-able, contain no object addresses and are equal for observably identical objects."""
import collections

import numpy as np
import sympy


def num(x):
    x = complex(x)
    return [round(x.real, 12) + 0.0, round(x.imag, 12) + 0.0]


def expr(e):
    if isinstance(e, sympy.Basic):
        return "sympy:" + sympy.srepr(e)
    if isinstance(e, (bool, np.bool_)):
        return bool(e)
    if isinstance(e, (int, np.integer)):
        return ["int", int(e)]
    if isinstance(e, (float, np.floating)):
        return ["float", round(float(e), 12) + 0.0]
    if isinstance(e, (complex, np.complexfloating)):
        return ["complex"] + num(e)
    return ["other", repr(e)]


def gate(g):
    from orquestra.quantum.circuits import _gates
    if isinstance(g, _gates.ControlledGate):
        return {"kind": "controlled", "k": g.num_control_qubits, "of": gate(g.wrapped_gate)}
    if isinstance(g, _gates.Dagger):
        return {"kind": "dagger", "of": gate(g.wrapped_gate)}
    if isinstance(g, _gates.Power):
        return {"kind": "power", "e": expr(g.exponent), "of": gate(g.wrapped_gate)}
    if isinstance(g, _gates.Exponential):
        return {"kind": "exp", "of": gate(g.wrapped_gate)}
    if isinstance(g, _gates.MatrixFactoryGate):
        d = {"kind": "basic", "name": g.name, "params": [expr(p) for p in g.params], "n": g.num_qubits, "herm": bool(g.is_hermitian)}
        mf = g.matrix_factory
        if isinstance(mf, _gates.CustomGateMatrixFactory):
            gd = mf.gate_definition
            d["custom"] = {"name": gd.gate_name, "ordering": [expr(s) for s in gd.params_ordering], "matrix": [expr(x) for x in gd.matrix]}
        return d
    return {"kind": "unknown", "repr": repr(g)}


def operation(op):
    from orquestra.quantum.circuits import GateOperation, MultiPhaseOperation
    if isinstance(op, GateOperation):
        return {"gate": gate(op.gate), "q": [int(i) for i in op.qubit_indices]}
    if isinstance(op, MultiPhaseOperation):
        return {"mp": [expr(p) for p in op.params]}
    return {"op": repr(op)}


def circuit(c):
    return {"n": expr(c.n_qubits), "ops": [operation(o) for o in c.operations], "free": [expr(s) for s in c.free_symbols]}


def term(t):
    return {"c": expr(t.coefficient), "ops": sorted([int(q), p] for q, p in t.operations)}


def canon(x):
    """canonical form of any result / argument"""
    from orquestra.quantum import circuits as C
    from orquestra.quantum.circuits import _gates as _g
    from orquestra.quantum.operators import PauliTerm, PauliSum
    from orquestra.quantum.measurements import Measurements, ExpectationValues, Parities
    from orquestra.quantum.distributions import MeasurementOutcomeDistribution
    from orquestra.quantum.wavefunction import Wavefunction
    import scipy.sparse
    if x is None or isinstance(x, (bool, str)):
        return x
    if isinstance(x, (int, float, complex, np.number, sympy.Basic)) and not isinstance(x, sympy.MatrixBase):
        return expr(x)
    if isinstance(x, sympy.MatrixBase):
        return {"matrix": list(x.shape), "e": [expr(sympy.nsimplify(v, rational=False) if False else v) for v in x]}
    if isinstance(x, np.ndarray):
        if x.dtype == object:
            return {"array": list(x.shape), "e": [canon(v) for v in x.reshape(-1)]}
        return {"array": list(x.shape), "e": [num(v) for v in x.reshape(-1)]}
    if scipy.sparse.issparse(x):
        return canon(np.asarray(x.toarray()))
    if isinstance(x, C.Circuit):
        return {"circuit": circuit(x)}
    if isinstance(x, C.GateOperation) or isinstance(x, C.MultiPhaseOperation):
        return operation(x)
    if isinstance(x, (_g.MatrixFactoryGate, _g.ControlledGate, _g.Dagger, _g.Power, _g.Exponential)):
        return gate(x)
    if isinstance(x, PauliTerm):
        return {"term": term(x)}
    if isinstance(x, PauliSum):
        return {"sum": [term(t) for t in x.terms]}
    if isinstance(x, Measurements):
        return {"measurements": [[int(b) for b in s] for s in x.bitstrings]}
    if isinstance(x, MeasurementOutcomeDistribution):
        return {"distribution": [[list(map(int, k)), round(float(v), 12)] for k, v in x.distribution_dict.items()]}
    if isinstance(x, Wavefunction):
        # what indexing hands out is observable too: a sympy number is not a numpy scalar (a later symbolic assignment works on one store and not on the other)
        return {"wavefunction": [canon(x[i]) for i in range(len(x))], "entry_kinds": ["sympy" if isinstance(x[i], sympy.Basic) else "numpy" if isinstance(x[i], (np.generic, np.ndarray)) else type(x[i]).__name__ for i in range(len(x))]}
    if isinstance(x, ExpectationValues):
        return {"values": canon(np.asarray(x.values)), "correlations": canon(x.correlations), "covariances": canon(x.estimator_covariances)}
    if isinstance(x, Parities):
        return {"pvalues": canon(np.asarray(x.values)), "pcorrelations": canon(x.correlations)}
    if isinstance(x, collections.Counter):
        return {"counter": sorted([canon(k), v] for k, v in x.items())}
    if isinstance(x, dict):
        return {"dict": [[canon(k), canon(v)] for k, v in x.items()]}
    if isinstance(x, (list, tuple)):
        return [canon(v) for v in x]
    if isinstance(x, (set, frozenset)):
        return {"set": sorted(str(canon(v)) for v in x)}
    if hasattr(x, "value") and hasattr(x, "precision"):
        return {"value_estimate": [canon(x.value), canon(x.precision)]}
    return {"object": type(x).__name__}
