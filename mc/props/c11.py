"""C11 - operators and result artefacts survive dict, file and text round trips (E1)."""
import io
import itertools
import json
import os
import shutil
import tempfile

import numpy as np

from mc.engine import Section, jdump
from mc.ref import pauli as rp

RULE = ("operators: Pauli strings with <=3 factors on indices {0,7,12,123} x coefficient alphabet (int, float, small, negative zero, zero, imaginary, negative "
        "imaginary, complex, complex with small real part, large, complex with zero imaginary part, numpy float/complex), sums of <=3 terms incl. duplicates and "
        "zeros, the empty sum; pipelines: dict->JSON(stdlib and rapidjson)->dict, save/load (path and open file), operator sets, str()->parser; oracle = canonical "
        "coefficient map (Pauli strings are linearly independent), exact for simplified operators. Artefacts: measurement sets, expectation values (real/complex, "
        "0/1/2 frames), parities, value estimates (precision None/float/numpy), lists, layers, connectivity, ordering, measurement-count estimates, each through "
        "its own save/load with a path and (where accepted) an open file. non-trivial = operator with a non-real or non-unit coefficient or >= 2 terms / artefact with content")
RULE += " Round 8: arrays in column-major layout / as transposed views; the dictionary form of an operator is not consumed by converting it back."
RULE += " Round 7: every save goes to a path that already holds a LONGER artefact of the same kind; expectation values / parities through pathlib.Path, bytes paths and relative names starting with a tilde."
RULE += " Round 5: 3-5 distinct correlation frames; loaded measurement sets answer get_counts like the saved ones; layers / connectivity not in ascending order; a term's coefficient reassigned between serialisations."
ASSUMPTIONS = ["|coefficient| < 1e15 (the printed form of larger floats contains '+')", "absent and empty correlation/covariance lists are the same zero-frame case"]
BOUNDS = {"quick": {"strings": "<=4 factors", "sum_terms": "3 over 13 pool terms, 4 over 6"}, "thorough": {"strings": "<=4 factors", "sum_terms": "4 over 13 pool terms, 5 over 6"}}
IDX = [0, 7, 12, 123]
COEFS = [["py", 2], ["py", -1.5], ["py", 1e-05], ["py", -0.0], ["py", 0], ["c", 0, 1], ["c", 0, -2], ["c", 1, 2], ["c", 1e-07, -3], ["py", 123456789.125], ["c", 2, 0], ["npf", 0.5],
         ["npc", 1, -1], ["py", 1.0], ["c", -0.25, 1e-06], ["py", 4.5e-09],
         # coefficients whose printed form is long (17 significant digits, exponents): the text format must carry them whole
         ["c", 0.5, 0.012345678901234568], ["c", 2, 1.2345678901234567e-05], ["c", 0.30000000000000004, 0.3333333333333333], ["c", -0.1234567890123456, -9.876543210987654e-05],
         ["py", 0.30000000000000004], ["py", -1.2345678901234567e-05]]


def coef(c):
    if c[0] == "py":
        return c[1]
    if c[0] == "c":
        return complex(c[1], c[2])
    if c[0] == "npf":
        return np.float64(c[1])
    if c[0] == "npc":
        return np.complex128(complex(c[1], c[2]))
    raise ValueError(c)


def mk_term(t):
    from orquestra.quantum.operators import PauliTerm
    c, ops = t
    return PauliTerm({int(q): p for q, p in ops.items()}, coef(c)) if ops else PauliTerm("I0", coef(c))


def mk_operator(d):
    from orquestra.quantum.operators import PauliSum
    if "t" in d:
        return mk_term(d["t"])
    return PauliSum([mk_term(t) for t in d["s"]])


def cmap(op):
    m = {}
    for t in op.terms:
        key = tuple(sorted((int(q), p) for q, p in t.operations))
        m[key] = m.get(key, 0) + complex(t.coefficient)
    return m


def maps_close(a, b, tol=1e-8):
    for k in set(a) | set(b):
        if abs(a.get(k, 0) - b.get(k, 0)) > tol:
            return False
    return True


def exact_terms(op):
    return sorted((tuple(sorted((int(q), p) for q, p in t.operations)), float(complex(t.coefficient).real), float(complex(t.coefficient).imag)) for t in op.terms)


def is_simplified(op):
    keys = [tuple(sorted(t.operations)) for t in op.terms]
    return len(keys) == len(set(keys)) and all(abs(complex(t.coefficient)) > 1e-8 for t in op.terms)


def scratch():
    return tempfile.mkdtemp(prefix="c11.", dir="/dev/shm" if os.path.isdir("/dev/shm") else "/var/tmp")


def operator_case(case):
    """{'op': descriptor}"""
    import rapidjson
    from orquestra.quantum import operators as O
    op = mk_operator(case["op"])
    ref = cmap(op)
    outs = []
    d = O.convert_op_to_dict(op)
    # the dictionary form is the caller's: converting it back does not consume it - it can be converted a second time and dumped again
    text_d = json.dumps(d, sort_keys=True)
    first = O.convert_dict_to_op(d)
    if json.dumps(d, sort_keys=True) != text_d:
        return {"ok": False, "msg": "convert_dict_to_op modified the dictionary it was given", "expected": text_d[:300], "observed": json.dumps(d, sort_keys=True)[:300], "sig": "operator:dict-consumed"}
    if not maps_close(cmap(O.convert_dict_to_op(d)), cmap(first)) or not maps_close(cmap(first), ref):
        return {"ok": False, "msg": "converting the same dictionary a second time gives another operator", "sig": "operator:dict-second-read"}
    outs.append(("dict/json", O.convert_dict_to_op(json.loads(json.dumps(d)))))
    outs.append(("dict/rapidjson", O.convert_dict_to_op(rapidjson.loads(rapidjson.dumps(d)))))
    wd = scratch()
    try:
        p = os.path.join(wd, "op.json")
        # a LONGER operator file saved earlier under the same name (the previous, larger result of a sweep): saving replaces it
        big = O.convert_dict_to_op({"terms": [{"pauli_ops": [{"qubit": q_, "op": "XYZ"[q_ % 3]} for q_ in range(j_, j_ + 3)], "coefficient": {"real": 0.123456789 + j_, "imag": -0.5}} for j_ in range(12)]}) if False else None
        from orquestra.quantum.operators import PauliSum as _PS, PauliTerm as _PT
        big = _PS([_PT({q_: "XYZ"[(q_ + j_) % 3] for q_ in range(j_, j_ + 3)}, 0.123456789 + j_ - 0.5j) for j_ in range(12)])
        O.save_operator(big, p)
        O.save_operator(op, p)
        outs.append(("save/load path", O.load_operator(p)))
        with open(p) as f:
            outs.append(("save/load open file", O.load_operator(f)))
        q = os.path.join(wd, "ops.json")
        from orquestra.quantum.operators import PauliSum
        sset = [op if isinstance(op, PauliSum) else PauliSum([op]), PauliSum(), PauliSum([mk_term([["c", 1, 2], {"7": "Y"}])])]
        O.save_operator_set([big, big, big, big, big], q)      # a longer list saved earlier under the same name
        O.save_operator_set(sset, q)
        back = O.load_operator_set(q)
        with open(q) as f:
            back2 = O.load_operator_set(f)
        if len(back) != 3 or len(back2) != 3:
            return {"ok": False, "msg": "operator set of 3 came back with %d" % len(back), "sig": "opset:length"}
        outs.append(("operator set [0]", back[0]))
        outs.append(("operator set open file [0]", back2[0]))
        if not maps_close(cmap(back[1]), {}) or not maps_close(cmap(back[2]), cmap(sset[2])):
            return {"ok": False, "msg": "operator set: members mixed up", "sig": "opset:members"}
    finally:
        shutil.rmtree(wd, ignore_errors=True)
    simp = is_simplified(op)
    for name, got in outs:
        if not maps_close(cmap(got), ref):
            return {"ok": False, "msg": "%s: operator denotes another matrix" % name, "expected": str(ref)[:300], "observed": repr(got)[:300], "sig": "operator:" + name.split(" ")[0]}
        if simp and exact_terms(got) != exact_terms(op):
            return {"ok": False, "msg": "%s: terms of a simplified operator are not preserved exactly" % name, "expected": str(exact_terms(op))[:300], "observed": str(exact_terms(got))[:300],
                    "sig": "operator:exact:" + name.split(" ")[0]}
    if cmap(op) != ref:
        return {"ok": False, "msg": "serialisation modified the operator", "sig": "operator:mutated"}
    nt = len(op.terms) >= 2 or any(abs(complex(t.coefficient) - 1) > 0 for t in op.terms)
    return {"ok": True, "nt": bool(nt), "ops": len(outs), "out": "terms%d" % len(op.terms)}


def text_case(case):
    """str(op) -> PauliTerm(str) / PauliSum(str)"""
    from orquestra.quantum.operators import PauliTerm, PauliSum
    op = mk_operator(case["op"])
    ref = cmap(op)
    txt = str(op)
    outs = []
    try:
        outs.append(("PauliSum(str)", PauliSum(txt)))
        if "t" in case["op"]:
            outs.append(("PauliTerm(str)", PauliTerm(txt)))
    except Exception as e:  # noqa: BLE001
        return {"ok": False, "msg": "printed operator %r cannot be parsed back: %s: %s" % (txt, type(e).__name__, e), "sig": "text:unparseable"}
    for name, got in outs:
        if not maps_close(cmap(got), ref):
            return {"ok": False, "msg": "%s of %r denotes another matrix" % (name, txt), "expected": str(ref)[:300], "observed": repr(got)[:300], "sig": "text:value"}
    return {"ok": True, "nt": True, "ops": len(outs), "out": "text"}


def reassigned_case(case):
    """{'op': descriptor, 'new': [coefficient descriptors]}: an operator is printed and serialised, then the public `coefficient` attribute of (one of) its
    term(s) is reassigned, then it is printed and serialised again - every time the text / dictionary must denote the operator as it is NOW"""
    from orquestra.quantum import operators as O
    from orquestra.quantum.operators import PauliSum, PauliTerm
    op = mk_operator(case["op"])
    terms = op.terms if isinstance(op, PauliSum) else [op]
    k = 0
    for step, cd in enumerate([None] + case["new"]):
        if cd is not None:
            if not terms:
                break
            terms[step % len(terms)].coefficient = coef(cd)
        ref = cmap(op)
        txt, rep = str(op), repr(op)
        for what, got in (("PauliSum(str(op))", PauliSum(txt)), ("PauliSum(repr(op))", PauliSum(rep)), ("convert_dict_to_op(convert_op_to_dict(op))", O.convert_dict_to_op(json.loads(json.dumps(O.convert_op_to_dict(op)))))):
            k += 1
            if not maps_close(cmap(got), ref):
                return {"ok": False, "msg": "after %d reassignment(s) of a coefficient: %s denotes another matrix than the operator does now" % (step, what), "expected": str(ref)[:300], "observed": repr(got)[:300],
                        "sig": "reassigned:" + what.split("(")[0], "ops": k}
        if isinstance(op, PauliTerm):
            k += 1
            if not maps_close(cmap(PauliTerm(txt)), ref):
                return {"ok": False, "msg": "after %d reassignment(s) of the coefficient: PauliTerm(str(term)) denotes another matrix" % step, "sig": "reassigned:PauliTerm", "ops": k}
    return {"ok": True, "nt": True, "ops": k, "out": "reassigned"}


def arr(d):
    """array descriptor: {'re': nested list, 'im': nested list|None, 'dtype': 'int'|None}"""
    a = np.array(d["re"], dtype=float if d.get("dtype") != "int" else int)
    if d.get("im") is not None:
        a = a + 1j * np.array(d["im"], dtype=float)
    # memory layout: the same values held column-major / as a transposed view (what .T, .conj().T and Fortran-ordered producers hand over)
    if d.get("layout") == "F":
        a = np.asfortranarray(a)
    elif d.get("layout") == "T":
        a = np.ascontiguousarray(a.T).T
    return a


def arrays_equal(a, b):
    if a is None or b is None:
        return a is None and b is None
    a, b = np.asarray(a), np.asarray(b)
    return a.shape == b.shape and bool(np.all(a == b))


def frames_equal(a, b):
    a = list(a) if a is not None else []
    b = list(b) if b is not None else []
    return len(a) == len(b) and all(arrays_equal(x, y) for x, y in zip(a, b))


def with_loaders(wd, name, save, load, open_file=True, path_kinds=False):
    p = os.path.join(wd, name)
    # an artefact saved EARLIER under the same name and longer than this one (a previous, larger result): saving replaces it
    with open(p, "w") as f0:
        f0.write("{" + " " * 4000 + '"stale": [' + ", ".join(["1.0"] * 400) + "]}")
    save(p)
    outs = [("path", load(p))]
    if path_kinds:
        # the same file named as a pathlib.Path, as bytes, and by a RELATIVE name that starts with a tilde (a legal file name, not a home directory)
        import pathlib
        outs.append(("pathlib.Path", load(pathlib.Path(p))))
        outs.append(("bytes path", load(os.fsencode(p))))
        cwd = os.getcwd()
        try:
            os.chdir(wd)
            save("~" + name)
            outs.append(("relative name starting with ~", load("~" + name)))
            save(pathlib.Path("sub_" + name))
            outs.append(("relative pathlib.Path", load(pathlib.Path("sub_" + name))))
        finally:
            os.chdir(cwd)
    if open_file:
        with open(p) as f:
            outs.append(("open file", load(f)))
        outs.append(("StringIO", load(io.StringIO(open(p).read()))))
    return outs


def artefact_case(case):
    from orquestra.quantum import measurements as M
    from orquestra.quantum import utils as U
    from orquestra.quantum.circuits import layouts as Ly
    kind = case["kind"]
    wd = scratch()
    try:
        if kind == "measurements":
            shots = [tuple(s) for s in case["shots"]]
            # entry kinds per shot: what runners hand over is plain ints, numpy integers (np.int8 / np.int64 rows of an array) - or both, when shots of two sources are pooled
            mk = {"py": int, "np8": np.int8, "np64": np.int64, "npu": np.uint8}
            kinds = case.get("kinds")
            given = [tuple(mk[kinds[i % len(kinds)] if kinds[i % len(kinds)] != "alt" else ("py", "np64")[j % 2]](x) for j, x in enumerate(sh)) for i, sh in enumerate(shots)] if kinds else list(shots)
            m = M.Measurements(list(given))
            outs = with_loaders(wd, "m.json", m.save, M.Measurements.load_from_file)
            for nm, got in outs:
                if [tuple(b) for b in got.bitstrings] != shots or any(not isinstance(b, tuple) for b in got.bitstrings):
                    return {"ok": False, "msg": "measurements (%s): bitstrings changed" % nm, "expected": str(shots), "observed": str(got.bitstrings), "sig": "measurements"}
                # "equal" for an object without __eq__: the loaded set answers every query like the saved one
                if got.get_counts() != m.get_counts() or any(type(x) is not int for b in got.bitstrings for x in b):
                    return {"ok": False, "msg": "measurements (%s): the loaded set reports other counts / holds non-int entries" % nm, "expected": str(m.get_counts())[:300],
                            "observed": str(got.get_counts())[:300], "sig": "measurements:counts"}
            nt = bool(shots)
        elif kind == "expectation_values":
            vals = arr(case["values"])
            cor = [arr(x) for x in case["cor"]] if case["cor"] is not None else None
            cov = [arr(x) for x in case["cov"]] if case["cov"] is not None else None
            ev = M.ExpectationValues(vals, cor, cov)
            outs = with_loaders(wd, "e.json", lambda p: M.save_expectation_values(ev, p), M.load_expectation_values, path_kinds=True)
            for nm, got in outs:
                if not arrays_equal(got.values, vals) or not frames_equal(got.correlations, cor) or not frames_equal(got.estimator_covariances, cov):
                    return {"ok": False, "msg": "expectation values (%s): values / correlations / covariances changed" % nm,
                            "expected": str((vals.tolist(), None if cor is None else [c.tolist() for c in cor], None if cov is None else [c.tolist() for c in cov]))[:400],
                            "observed": str((np.asarray(got.values).tolist(), got.correlations, got.estimator_covariances))[:400], "sig": "expectation_values"}
            nt = True
        elif kind == "parities":
            vals = arr(case["values"])
            cor = [arr(x) for x in case["cor"]] if case["cor"] is not None else None
            pa = M.Parities(vals, cor)
            outs = with_loaders(wd, "p.json", lambda p: M.save_parities(pa, p), M.load_parities, path_kinds=True)
            for nm, got in outs:
                if not arrays_equal(got.values, vals) or not frames_equal(got.correlations, cor):
                    return {"ok": False, "msg": "parities (%s): tallies changed" % nm, "sig": "parities"}
            nt = True
        elif kind == "value_estimate":
            prec = case["precision"]
            if isinstance(prec, list):
                prec = np.float64(prec[1])
            v = U.ValueEstimate(case["value"], prec)
            outs = with_loaders(wd, "v.json", lambda p: U.save_value_estimate(v, p), U.load_value_estimate)
            for nm, got in outs:
                same_prec = (got.precision is None and prec is None) or (got.precision is not None and prec is not None and float(got.precision) == float(prec))
                if float(got) != float(v) or not same_prec or not (got == v):
                    return {"ok": False, "msg": "value estimate (%s): %r +- %r became %r +- %r" % (nm, float(v), prec, float(got), got.precision), "sig": "value_estimate"}
            nt = prec is not None
        elif kind == "list":
            lst = case["list"]
            outs = with_loaders(wd, "l.json", lambda p: U.save_list(lst, p), U.load_list)
            for nm, got in outs:
                if got != lst:
                    return {"ok": False, "msg": "list (%s) changed" % nm, "expected": str(lst), "observed": str(got), "sig": "list"}
            nt = bool(lst)
        elif kind == "layers":
            layers = [[tuple(x) for x in layer] for layer in case["layers"]]
            cl = Ly.CircuitLayers(layers)
            outs = with_loaders(wd, "cl.json", lambda p: Ly.save_circuit_layers(cl, p), Ly.load_circuit_layers)
            for nm, got in outs:
                if got.layers != layers or any(not isinstance(x, tuple) for layer in got.layers for x in layer):
                    return {"ok": False, "msg": "circuit layers (%s) changed" % nm, "expected": str(layers), "observed": str(got.layers), "sig": "layers"}
            nt = bool(layers)
        elif kind == "connectivity":
            conn = [tuple(x) for x in case["conn"]]
            cc = Ly.CircuitConnectivity(conn)
            outs = with_loaders(wd, "cc.json", lambda p: Ly.save_circuit_connectivity(cc, p), Ly.load_circuit_connectivity)
            for nm, got in outs:
                if got.connectivity != conn or any(not isinstance(x, tuple) for x in got.connectivity):
                    return {"ok": False, "msg": "connectivity (%s) changed" % nm, "sig": "connectivity"}
            nt = bool(conn)
        elif kind == "ordering":
            o = case["ordering"]
            outs = with_loaders(wd, "o.json", lambda p: Ly.save_circuit_ordering(o, p), Ly.load_circuit_ordering)
            for nm, got in outs:
                if got != o:
                    return {"ok": False, "msg": "ordering (%s) changed" % nm, "sig": "ordering"}
            nt = bool(o)
        elif kind == "nmeas":
            fm = arr(case["frame_meas"]) if case["frame_meas"] is not None else None
            outs = with_loaders(wd, "n.json", lambda p: U.save_nmeas_estimate(case["nmeas"], case["nterms"], p, fm), U.load_nmeas_estimate, open_file=False)
            for nm, got in outs:
                if got[0] != case["nmeas"] or got[1] != case["nterms"] or not arrays_equal(got[2], fm):
                    return {"ok": False, "msg": "measurement-count estimate changed", "expected": str((case["nmeas"], case["nterms"], fm)), "observed": str(got), "sig": "nmeas"}
            nt = fm is not None
        else:
            raise ValueError(kind)
    finally:
        shutil.rmtree(wd, ignore_errors=True)
    return {"ok": True, "nt": bool(nt), "ops": len(outs), "out": kind}


def near_case(case):
    """{'base': c, 'ops': {q:p}}: a HISTORY of serialisations in one process of terms on the same Pauli string whose coefficients are close together
    (inside the library's equality tolerance / hash bucket, but more than 1e-8 apart): each one must come back with its OWN coefficient"""
    from orquestra.quantum import operators as O
    from orquestra.quantum.operators import PauliTerm, PauliSum
    base = case["base"]
    coefs = [base, base * (1 + 3e-7), base * (1 - 4e-7), base + 2.5e-7, complex(base, 3e-7), complex(base, 6e-7), base * (1 + 3e-7)]
    ops = {int(q): p for q, p in case["ops"].items()}
    k = 0
    wd = scratch()
    try:
        for i, c in enumerate(coefs):
            t = PauliTerm(dict(ops), c)
            for name, got in (("convert", O.convert_dict_to_op(json.loads(json.dumps(O.convert_op_to_dict(t))))),
                              ("convert sum", O.convert_dict_to_op(O.convert_op_to_dict(PauliSum([t, PauliTerm({9: "Z"}, 1.0)])))),):
                k += 1
                m = cmap(got)
                key = tuple(sorted(ops.items()))
                if abs(m.get(key, 0) - complex(c)) > 1e-12:
                    return {"ok": False, "msg": "serialisation %d in this process (%s): coefficient %r came back as %r" % (i, name, c, m.get(key)), "sig": "near:coefficient", "ops": k}
            p = os.path.join(wd, "o%d.json" % i)
            O.save_operator(t, p)
            if abs(cmap(O.load_operator(p)).get(tuple(sorted(ops.items())), 0) - complex(c)) > 1e-12:
                return {"ok": False, "msg": "save/load %d in this process: coefficient %r changed" % (i, c), "sig": "near:save", "ops": k}
        sset = [PauliSum([PauliTerm(dict(ops), c)]) for c in coefs]
        q = os.path.join(wd, "set.json")
        O.save_operator_set(sset, q)
        back = O.load_operator_set(q)
        for c, b in zip(coefs, back):
            if abs(cmap(b).get(tuple(sorted(ops.items())), 0) - complex(c)) > 1e-12:
                return {"ok": False, "msg": "operator set with near-equal coefficients: %r came back as %r" % (c, cmap(b)), "sig": "near:set", "ops": k}
    finally:
        shutil.rmtree(wd, ignore_errors=True)
    return {"ok": True, "nt": True, "ops": k, "out": "near"}


FUNCS = {"reassigned": reassigned_case, "near_coefficients": near_case, "operators": operator_case, "text": text_case, "artefacts": artefact_case}


def strings(maxf):
    out = []
    for k in range(0, maxf + 1):
        for qs in itertools.combinations(IDX, k):
            for ps in itertools.product("XYZ", repeat=k):
                out.append({str(q): p for q, p in zip(qs, ps)})
    return out


def A(re, im=None, dtype=None, layout=None):
    return {"re": re, "im": im, "dtype": dtype, "layout": layout}


def artefacts():
    out = [{"kind": "measurements", "shots": s} for s in ([], [[0]], [[1, 0, 1]], [[0, 1], [1, 1], [0, 1]], [[0] * 12] * 3 + [[1] * 12],
                                                          [[1, 0]] * 150 + [[0, 1]] * 151 + [[1, 1]], [[0] * 69 + [1], [1] + [0] * 69, [0] * 69 + [1]],
                                                          [[(i >> b) & 1 for b in range(5)] for i in range(32)], [[2, 0, 13], [0, 2, 13]])]
    for kinds in (["np8"], ["np64"], ["py", "np64"], ["np8", "py"], ["py", "py", "npu"], ["alt"], ["py", "alt"]):
        out += [{"kind": "measurements", "shots": s, "kinds": kinds} for s in ([[1, 0, 1]], [[0, 1], [1, 1], [0, 1]], [[1, 0]] * 5 + [[0, 1]] * 4, [[(i >> b) & 1 for b in range(3)] for i in range(8)])]
    vals = [A([0.5, -1.25, 3.0]), A([0.5, -1.0], [0.25, 0.0]), A([1e-09]), A([0.0, 0.0], [0.0, 0.0]), A([])]
    f1 = A([[1.0, 0.5], [0.5, 1.0]])
    f2 = A([[0.25]])
    fc = A([[1.0, 0.5], [0.5, 1.0]], [[0.0, -0.5], [0.5, 0.0]])
    # NON-symmetric complex / real frames in column-major layout and as transposed views
    gF = A([[1.0, 2.0, 3.0], [4.0, 5.0, 6.0], [7.0, 8.0, 9.0]], [[0.0, -1.0, 0.5], [0.25, 0.0, -2.0], [1.5, 3.0, 0.0]], layout="F")
    gT = A([[1.0, 2.0], [3.0, 4.0]], [[0.5, -0.5], [0.25, 0.0]], layout="T")
    gR = A([[1.0, 2.0], [3.0, 4.0]], layout="F")
    out += [{"kind": "expectation_values", "values": A([0.5, -1.0, 2.0]), "cor": cor_, "cov": cov_} for cor_, cov_ in (([gF], None), (None, [gF, gF]), ([gF], [gF]))]
    out += [{"kind": "expectation_values", "values": A([0.5, -1.0]), "cor": cor_, "cov": cov_} for cor_, cov_ in (([gT], [gR]), ([gR, gT], None), (None, [gT]))]
    out += [{"kind": "nmeas", "nmeas": 3.5, "nterms": 2, "frame_meas": f_} for f_ in (A([[2.0, 0.5], [1.0, 3.0]], [[0.0, 1.0], [-1.0, 0.5]], layout="F"), A([[2.0, 0.5], [1.0, 3.0]], layout="T"))]
    f3 = A([[0.0, -1.0, 2.0], [-1.0, 0.5, 0.0], [2.0, 0.0, 1e-12]])
    f4 = A([[2.0, -0.5], [-0.5, 2.0]])
    frames = [None, [], [f1], [f1, f2], [fc], [fc, f1], [f2, f1, f3], [f1, f4, f2, f3, fc]]   # up to five distinct frames: count and order are observable
    for v in vals[:4]:
        for cor in frames:
            for cov in frames:
                out.append({"kind": "expectation_values", "values": v, "cor": cor, "cov": cov})
    pv = A([[3, 1], [0, 4]], dtype="int")
    pc = A([[[4, 0], [2, 2]], [[2, 2], [4, 0]]], dtype="int")
    pc2 = A([[[1, 3], [0, 4]], [[0, 4], [1, 3]]], dtype="int")
    pc3 = A([[[7, 0]]], dtype="int")
    out += [{"kind": "parities", "values": pv, "cor": c} for c in (None, [], [pc], [pc, pc], [pc2, pc], [pc, pc2, pc3], [pc3, pc2, pc, pc2])]
    out += [{"kind": "parities", "values": A([[0, 0]], dtype="int"), "cor": c} for c in (None, [pc3])] + [{"kind": "parities", "values": A([[10**12, 1], [5, 0], [2, 2]], dtype="int"), "cor": None}]
    out += [{"kind": "value_estimate", "value": v, "precision": p} for v in (1.5, -0.25, 0.0, 1e-12, 3) for p in (None, 0.1, 0.0, ["np", 0.01], 2)]
    out += [{"kind": "list", "list": l} for l in ([], [1, 2.5, -3], ["a", "b"], [[1, 2], [3]], [0.1, [0.2, ["x"]]], [None, True])]
    out += [{"kind": "layers", "layers": l} for l in ([], [[[0, 1], [2, 3]], [[1, 2]]], [[[0, 1, 2]]], [[], [[4, 5]]],
                                                      # groups / layers / pairs that are NOT in ascending order (the order is content), repeated groups, wide indices
                                                      [[[4, 5], [0, 1], [2, 3]]], [[[2, 3], [0, 1]], [[1, 2]], [[0, 3], [2, 1]]], [[[1, 0]], [[0, 1]]], [[[0, 1]], [[0, 1]]], [[[10, 2], [11, 100]], []])]
    out += [{"kind": "connectivity", "conn": c} for c in ([], [[0, 1]], [[0, 1], [1, 2], [0, 2, 3]], [[2, 3], [0, 1]], [[1, 0], [0, 1]], [[5, 4], [5, 4], [10, 2]])]
    out += [{"kind": "ordering", "ordering": o} for o in ([], [0, 2, 1, 3], [5], [3, 2, 1, 0], [10, 2, 33])]
    out += [{"kind": "nmeas", "nmeas": n, "nterms": t, "frame_meas": f} for n in (12.5, 0.0, 1e6) for t in (1, 7) for f in (None, A([3.0, 4.5]), A([1.0]), A([2.0, 0.5], [0.0, 1.0]))]
    return out


def run(run):
    deep = run.tier == "thorough"      # the former thorough bounds are the quick tier now
    thorough = True
    S = strings(4)
    terms = [[c, s] for s in S for c in (COEFS if (thorough or len(s) <= 1) else COEFS[::3] + COEFS[16:])]
    ops = [{"t": t} for t in terms]
    pool = [[["py", 2], {"0": "X"}], [["c", 1, 2], {"7": "Y", "123": "Z"}], [["py", -1.5], {}], [["py", 0], {"12": "Z"}], [["py", 0.5], {"0": "X"}], [["py", -2], {"0": "X"}],
            [["c", 0, -2], {"12": "Y"}], [["py", 1e-05], {"0": "Z", "7": "Z", "12": "Z"}], [["npc", 1, -1], {"7": "X"}], [["c", 1e-07, -3], {}],
            [["c", 0.5, 0.012345678901234568], {"7": "Z"}], [["c", 2, 1.2345678901234567e-05], {"0": "Y", "123": "X"}], [["c", -0.1234567890123456, -9.876543210987654e-05], {}]]
    L = 3
    sums = [[]] + [[pool[i] for i in c] for k in range(1, L + 1) for c in itertools.product(range(len(pool)), repeat=k)]
    sums += [[pool[i] for i in c] for c in itertools.product(range(len(pool) if deep else 6), repeat=4)]
    if deep:
        sums += [[pool[i] for i in c] for c in itertools.product(range(6), repeat=5)]
    ops += [{"s": s} for s in sums]
    secs = [Section("operators", [{"op": o} for o in ops], operator_case, horizon=120, desc="dict/JSON (stdlib + rapidjson), save/load (path + open file), operator sets"),
            Section("text", [{"op": o} for o in ops], text_case, horizon=120, desc="str(op) parsed back by PauliTerm / PauliSum"),
            Section("artefacts", artefacts(), artefact_case, horizon=120, desc="every persisted artefact through its own save/load (path, open file, StringIO)")]
    rterms = [[["py", 2], {"0": "X"}], [["c", 1, 2], {"7": "Y", "123": "Z"}], [["py", -1.5], {}], [["py", 1e-05], {"0": "Z", "7": "Z"}]]
    rops = [{"t": t} for t in rterms] + [{"s": [rterms[0], rterms[1]]}, {"s": [rterms[2], rterms[3], rterms[0]]}]
    news = [[["py", 0.5]], [["c", 0, -2], ["py", 3]], [["py", -1e-3], ["py", 0], ["c", 0.25, 0.5]]]
    secs.append(Section("reassigned", [{"op": o, "new": nw} for o in rops for nw in news], reassigned_case, horizon=120,
                        desc="print / serialise, reassign a term's coefficient, print / serialise again (1-3 reassignments): text and dictionary follow the operator"))
    secs.append(Section("near_coefficients", [{"base": b, "ops": o} for b in (0.5000001, 2.0, -1.25, 1e-3, 123456.5) for o in ({"0": "Z", "12": "X"}, {"7": "Y"}, {})], near_case,
                        desc="histories of serialisations of terms whose coefficients share a hash bucket / are np.allclose but differ by > 1e-8"))
    run.run_sections(secs)
