"""C03 - Pauli operator arithmetic is faithful to matrix arithmetic (E1, exhaustive small scope)."""
import itertools
from functools import lru_cache

import numpy as np
from mc.ref.linalg import allclose as _close

from mc.engine import Section, jdump
from mc.lib import mk_op, op_terms, coef
from mc.ref import pauli as rp

RULE = ("every ordered pair of Pauli strings on <=3 qubits x operations {*,+,-}, coefficient pairs from K x K on a sub-pool, "
        "term/scalar mixes on both sides, powers 0..4, all ordered pairs of a pool of <=3-term sums (duplicates, zero "
        "coefficients, cancelling terms, empty sum, constants), simplify, equality on all pairs of simplified pool members; "
        "non-trivial = reference result is a non-zero matrix and at least one operand is a non-constant operator "
        "(for products of terms additionally counted: pairs with an anticommuting factor); distinct = canonical case json")
RULE += ' Also: terms that tie on support and coefficient in every order, like coefficients inside one hash bucket that differ by more than the tolerance, rounding residues (0.1+0.2-0.3) under simplify.'
RULE += ' Round 7: terms built with explicit identity factors (dict / iterable constructor); every ordered pair of full-weight strings on 4 qubits and same-letter strings on 5-9 shared qubits.'
RULE += ' Round 6: one-term sums against numbers; powers of families of nearly equal sums in one process; results of arithmetic times 0 / 1e-12 / divided by 1e12 (both sides equal, no ~0 residue after simplify).'
RULE += ' Round 5: the same small coefficient (1e-7..1e-3) on different strings is unequal; operators against plain numbers on either side (zero-coefficient strings, empty sum); operands of 1e-12..5e-9 times / divided by 1e8..1e9 factors.'
ASSUMPTIONS = ["numpy dense arithmetic is correct", "PauliTerm.coefficient/.operations and PauliSum.terms are the public observables of an operator",
               "coefficients are far (>=0.25) from the library's 1e-8 tolerance edge"]
BOUNDS = {"quick": {"qubits": 3, "strings": "16 on {0,1} + 4 on {2} (all ordered pairs) + 64x64 products", "sum_terms": 2, "powers": "0..4 (unit-modulus coefficients: 2..8)"},
          "thorough": {"qubits": 3, "strings": "all 64 (all 4096 ordered pairs x 3 ops)", "sum_terms": 3, "powers": "0..4"}}
N = 4
ATOL = 1e-9
K = [1.0, -0.5, [0, 2], [1, -1], 0, 3]
SCALARS = [2, -0.5, [0, 1], [0.25, 0.5]]


@lru_cache(maxsize=None)
def _sm(key):
    return rp.string_matrix(dict(key), N)


def ref_matrix(desc):
    if "n" in desc:
        return complex(coef(desc["n"])) * np.eye(2 ** N)
    terms = [desc["t"]] if "t" in desc else desc["s"]
    M = np.zeros((2 ** N, 2 ** N), dtype=complex)
    for c, ops in terms:
        M = M + complex(coef(c)) * _sm(tuple(sorted((int(q), p) for q, p in ops.items())))
    return M


def impl_matrix(obj):
    if isinstance(obj, (int, float, complex)):
        return complex(obj) * np.eye(2 ** N)
    M = np.zeros((2 ** N, 2 ** N), dtype=complex)
    for c, ops in op_terms(obj):
        M = M + c * _sm(tuple(sorted(ops.items())))
    return M


def nonconst(desc):
    if "n" in desc:
        return False
    terms = [desc["t"]] if "t" in desc else desc["s"]
    return any(any(p != "I" for p in ops.values()) for _, ops in terms)


def anticommuting(a, b):
    if "t" not in a or "t" not in b:
        return False
    oa, ob = a["t"][1], b["t"][1]
    return any(q in ob and oa[q] != "I" and ob[q] != "I" and oa[q] != ob[q] for q in oa)


def binop(case):
    """case: {op, a, b}: a, b operand descriptors ('t' term, 's' sum, 'n' number)"""
    a, b = mk_op(case["a"]), mk_op(case["b"])
    A, B = ref_matrix(case["a"]), ref_matrix(case["b"])
    op = case["op"]
    if op == "mul":
        got, exp = a * b, A @ B
    elif op == "add":
        got, exp = a + b, A + B
    elif op == "sub":
        got, exp = a - b, A - B
    elif op == "div":
        got, exp = a / b, A / complex(coef(case["b"]["n"]))
    elif op in ("iadd", "isub", "imul"):
        # augmented assignment through a second name: `x = a; x += b` - x is the result, a must stay what it was
        x = a
        if op == "iadd":
            x += b
            exp = A + B
        elif op == "isub":
            x -= b
            exp = A - B
        else:
            x *= b
            exp = A @ B
        got = x
    else:
        raise ValueError(op)
    G = impl_matrix(got)
    ok = _close(G, exp, atol=ATOL)
    # the receivers must still denote what they denoted
    ok2 = _close(impl_matrix(a), A, atol=ATOL) and _close(impl_matrix(b), B, atol=ATOL)
    r = {"ok": bool(ok and ok2), "nt": bool(np.abs(exp).max() > 1e-12 and (nonconst(case["a"]) or nonconst(case["b"]))),
         "out": type(got).__name__ + ":" + str(len(got.terms)) + (":anti" if op == "mul" and anticommuting(case["a"], case["b"]) else "")}
    if not r["ok"]:
        r.update(msg="%s of operands does not denote the matrix %s" % (op, op) if ok2 else "operand modified by " + op,
                 expected=str(np.round(exp, 6).tolist())[:600], observed=repr(got)[:300], sig="binop:" + op)
    return r


def far_case(case):
    """{'op', 'a', 'b'}: operands on sparse, large qubit indices (8, 9, 63, 64, 100, 1000 ...): judged by coefficient maps (Pauli strings are linearly independent,
    so equal maps <=> equal matrices) computed with a single-qubit table derived from the 2x2 matrices - no dense matrix of 2^1000 entries is needed"""
    def cm(desc):
        if "n" in desc:
            return {(): complex(coef(desc["n"]))}
        terms = [desc["t"]] if "t" in desc else desc["s"]
        return rp.coeff_map([(complex(coef(c)), ops) for c, ops in terms])
    a, b = mk_op(case["a"]), mk_op(case["b"])
    A, B = cm(case["a"]), cm(case["b"])
    op = case["op"]
    got, exp = (a * b, rp.map_mul(A, B)) if op == "mul" else (a + b, rp.map_add(A, B)) if op == "add" else (a - b, rp.map_add(A, B, -1))
    G = rp.coeff_map([(c, {str(q): p_ for q, p_ in ops.items()}) for c, ops in op_terms(got)])
    keys = set(G) | set(exp)
    ok = all(abs(G.get(k_, 0) - exp.get(k_, 0)) <= ATOL * max(1.0, abs(exp.get(k_, 0))) for k_ in keys)
    A2 = rp.coeff_map([(c, {str(q): p_ for q, p_ in ops.items()}) for c, ops in op_terms(a)]) if not isinstance(a, (int, float, complex)) else A
    ok2 = all(abs(A2.get(k_, 0) - A.get(k_, 0)) <= ATOL for k_ in set(A) | set(A2))
    r = {"ok": bool(ok and ok2), "nt": True, "out": op}
    if not r["ok"]:
        r.update(msg="%s of operands on far-apart qubits does not denote the matrix %s" % (op, op) if ok2 else "operand modified by " + op, expected=str(exp)[:500], observed=repr(got)[:300], sig="far:" + op)
    return r


def powop(case):
    a = mk_op(case["a"])
    k = case["k"]
    A = ref_matrix(case["a"])
    bad = (not isinstance(k, int)) or k < 0
    try:
        got = a ** k
    except ValueError:
        return {"ok": bad, "nt": True, "out": "ValueError", "msg": "valid power refused", "sig": "pow:refused"}
    if bad:
        return {"ok": False, "msg": "power %r accepted" % (k,), "observed": repr(got), "sig": "pow:accepted-bad"}
    exp = np.linalg.matrix_power(A, k)
    ok = _close(impl_matrix(got), exp, atol=ATOL)
    r = {"ok": bool(ok), "nt": bool(k >= 2 and nonconst(case["a"])), "out": "pow%d:%d" % (k, len(got.terms))}
    if not ok:
        r.update(msg="a**%d differs from repeated matrix product" % k, expected=str(np.round(exp, 6).tolist())[:600],
                 observed=repr(got)[:300], sig="pow")
    return r


def pow_history_case(case):
    """{'ops': [sum descriptors], 'ks': [exponents]}: powers of several operators - among them NEARLY equal ones, as in a finite-difference sweep - taken one after the other in one
    process: each power is the repeated matrix product of ITS OWN base (to 1e-9), whatever was raised to that power before; the bases are unchanged"""
    k_ = 0
    for rnd in range(2):
        for d in case["ops"]:
            for k in case["ks"]:
                a = mk_op(d)
                before = jdump(sorted(map(jdump, op_terms(a))))
                got = a ** k
                k_ += 1
                exp = np.linalg.matrix_power(ref_matrix(d), k)
                if not _close(impl_matrix(got), exp, atol=1e-9 * max(1.0, np.abs(exp).max())):
                    return {"ok": False, "msg": "(%s)**%d, taken after powers of nearby operators, differs from the repeated matrix product of its own base by %.3e" % (
                        repr(a)[:120], k, np.abs(impl_matrix(got) - exp).max()), "sig": "pow-history", "ops": k_}
                if jdump(sorted(map(jdump, op_terms(a)))) != before:
                    return {"ok": False, "msg": "** modified its base", "sig": "pow-history:mutated", "ops": k_}
    return {"ok": True, "nt": True, "ops": k_, "out": "powhist"}


def scalar_simplify_case(case):
    """{'a': sum descriptor, 'via': how the sum is produced}: a sum that is the RESULT of arithmetic is multiplied by 0 / a tiny number on either side, or divided by a huge one:
    both orders are equal operators, simplify leaves no ~0 term behind (the zero operator simplifies to the empty sum), and the small quotient equals the small product"""
    from orquestra.quantum.operators import PauliSum, PauliTerm
    base = mk_op(case["a"])
    S = {"as-built": lambda: base, "simplified": lambda: base.simplify(), "sum+0": lambda: base + PauliTerm("I0", 0), "product": lambda: base * PauliTerm("I0", 1.0), "copy-simplified-twice": lambda: base.simplify().simplify(),
         "sum-sum": lambda: (base + base) - base}[case["via"]]()
    A = impl_matrix(S)
    k_ = 0
    for sc in (0, 0.0, 0j, 1e-12, -1e-13, complex(0, 1e-12)):
        L_, R_ = sc * S, S * sc
        k_ += 2
        for nm, o in (("number * sum", L_), ("sum * number", R_)):
            if not _close(impl_matrix(o), sc * A, atol=ATOL):
                return {"ok": False, "msg": "%s with the number %r does not denote the scaled matrix" % (nm, sc), "sig": "scalar-simplify:matrix", "ops": k_}
            t = o.simplify()
            if any(abs(c) <= 1e-8 for c, _ in op_terms(t)):
                return {"ok": False, "msg": "(%s with %r).simplify() keeps terms with ~0 coefficients: %r" % (nm, sc, t), "sig": "scalar-simplify:residue", "ops": k_}
            if not (t == PauliSum()) or not (PauliSum() == t) or not (o == 0):
                return {"ok": False, "msg": "%s with %r is the zero operator but does not compare equal to the empty sum / to 0 (simplified: %r)" % (nm, sc, t), "sig": "scalar-simplify:zero", "ops": k_}
        if not (L_ == R_) or not (L_.simplify() == R_.simplify()):
            return {"ok": False, "msg": "%r * sum and sum * %r are unequal operators" % (sc, sc), "observed": repr(L_)[:200] + " vs " + repr(R_)[:200], "sig": "scalar-simplify:sides", "ops": k_}
    for big in (1e12, -4e13):
        D_, P_ = S / big, S * (1 / big)
        k_ += 1
        if not (D_.simplify() == P_.simplify()) or not (D_ == P_) or any(abs(c) <= 1e-8 for c, _ in op_terms(D_.simplify())):
            return {"ok": False, "msg": "sum / %g and sum * %g are unequal, or the quotient keeps ~0 terms after simplify" % (big, 1 / big), "observed": repr(D_.simplify())[:200], "sig": "scalar-simplify:quotient", "ops": k_}
    if not _close(impl_matrix(S), A, atol=ATOL):
        return {"ok": False, "msg": "scaling modified its operand", "sig": "scalar-simplify:mutated"}
    return {"ok": True, "nt": True, "ops": k_, "out": case["via"]}


def simplify_case(case):
    from orquestra.quantum.operators import PauliSum
    s = mk_op(case["a"])
    A = ref_matrix(case["a"])
    t = s.simplify()
    u = t.simplify()
    ok = _close(impl_matrix(t), A, atol=ATOL)
    idem = jdump(sorted(map(jdump, op_terms(u)))) == jdump(sorted(map(jdump, op_terms(t))))
    # simplified: no two terms with the same string, no ~0 coefficient
    keys = [tuple(sorted(o.items())) for _, o in op_terms(t)]
    canon = len(keys) == len(set(keys)) and all(abs(c) > 1e-8 for c, _ in op_terms(t))
    same_src = _close(impl_matrix(s), A, atol=ATOL)
    r = {"ok": bool(ok and idem and canon and same_src and isinstance(t, PauliSum)), "nt": len(case["a"]["s"]) >= 2,
         "out": "%d->%d" % (len(case["a"]["s"]), len(t.terms))}
    if not r["ok"]:
        r.update(msg="simplify changed the denoted matrix" if not ok else "simplify not idempotent/canonical or modified its receiver",
                 expected=str(np.round(A, 6).tolist())[:500], observed=repr(t), sig="simplify")
    return r


def eq_case(case):
    """equality of two *simplified* operators <=> equality of denoted matrices; independent of term order"""
    x, y = mk_op(case["a"]), mk_op(case["b"])
    if hasattr(x, "simplify"):
        x = x.simplify()
    if hasattr(y, "simplify"):
        y = y.simplify()
    X, Y = impl_matrix(x), impl_matrix(y)
    same = bool(_close(X, Y, atol=1e-8))
    got = bool(x == y)
    got2 = bool(y == x)
    ok = got == same and got2 == same
    r = {"ok": ok, "nt": same and bool(np.abs(X).max() > 0), "out": "eq" if same else "ne"}
    if same and ok and not isinstance(x, (int, float, complex)) and not isinstance(y, (int, float, complex)):
        from orquestra.quantum.operators import PauliSum
        # every permutation of the terms compares equal and set membership works
        for perm in itertools.permutations(list(x.terms)):
            p = PauliSum(list(perm))
            if not (p == y and y == p):
                ok = False
                r.update(ok=False, msg="term order changes equality", observed=repr(p) + " vs " + repr(y), sig="eq:order")
                break
    if not ok and "msg" not in r:
        r.update(msg="== disagrees with equality of denoted matrices", expected=same, observed=[got, got2, repr(x), repr(y)], sig="eq")
    return r


def construction_case(case):
    """{'ops': {q:p}, 'orders': [perm of qubits], 'c': coef}: the same Pauli string built in different qubit orders (dict insertion order,
    product order of single-qubit terms) is one operator: ==, merged by simplify, cancels in a difference, equal as sums"""
    from orquestra.quantum.operators import PauliTerm, PauliSum
    ops = case["ops"]
    objs = []
    for perm in case["orders"]:
        objs.append(PauliTerm({int(q): ops[str(q)] for q in perm}, 1.0))
        t = None
        for q in perm:
            f = PauliTerm({int(q): ops[str(q)]}, 1.0)
            t = f if t is None else t * f
        objs.append(t)
        # the same string through the iterable constructor, with EXPLICIT identity factors on other qubits (an identity factor is no factor)
        its = [(ops[str(q)], int(q)) for q in perm]
        objs.append(PauliTerm.from_iterable(its, 1.0))
        objs.append(PauliTerm.from_iterable([("I", 4)] + its + [("I", 1 if 1 not in [int(q_) for q_ in perm] else 6)], 1.0))
        objs.append(PauliTerm({**{int(q): ops[str(q)] for q in perm}, 4: "I"}, 1.0))
    ref = _sm(tuple(sorted((int(q), p) for q, p in ops.items())))
    k = 0
    for i, a in enumerate(objs):
        if not _close(impl_matrix(a), ref, atol=ATOL):
            return {"ok": False, "msg": "construction %d of the string denotes another matrix" % i, "observed": repr(a), "sig": "construction:matrix"}
        for j, b in enumerate(objs):
            k += 1
            if not (a == b):
                return {"ok": False, "msg": "the same string built in two qubit orders compares unequal", "observed": [repr(a), repr(b)], "sig": "construction:eq"}
            s = (a + b).simplify()
            d = (a - b).simplify()
            if len(s.terms) != 1 or abs(complex(s.terms[0].coefficient) - 2) > 1e-9 or len(d.terms) != 0:
                return {"ok": False, "msg": "like terms built in different qubit orders are not merged by simplify", "observed": [repr(s), repr(d)], "sig": "construction:simplify"}
            for tgt in (a, b):
                if any(p_ == "I" for _, p_ in tgt.operations) or set(tgt.qubits) != {int(q_) for q_ in ops}:
                    return {"ok": False, "msg": "a term built with explicit identity factors reports them as operations / acted-on qubits", "observed": [repr(tgt), str(list(tgt.operations)), str(tgt.qubits)], "sig": "construction:identity-kept"}
            other = PauliTerm({5: "Z"}, 0.5)  # commutes with every string on qubits 0..2
            if not (PauliSum([a, other]).simplify() == PauliSum([other, b]).simplify()) or not ((a + other) * (a + other) == (b * b + 2 * b * other + other * other)):
                return {"ok": False, "msg": "equal sums built from differently ordered constructions compare unequal", "observed": [repr(a), repr(b)], "sig": "construction:sum-eq"}
    return {"ok": True, "nt": len(ops) >= 2, "ops": k, "out": "f%d" % len(ops)}


def edge_case(case):
    """{'m0': first grid index, 'm1': last}: coefficients next to the edges of the library's 1e-6 hash grid (and its half points): operators whose
    like coefficients differ by an ulp / 1e-12 are equal as matrices to ~1e-12, far inside the 1e-8 tolerance, so they must compare equal"""
    from orquestra.quantum.operators import PauliTerm, PauliSum
    k = 0
    for m in range(case["m0"], case["m1"]):
        for c in ((m + 0.5) * 1e-6, (m + 1) * 1e-6, -(m + 0.5) * 1e-6):
            for d in (float(np.nextafter(c, 0)), float(np.nextafter(c, 1)), c * (1 + 1e-12), c + 1e-12):
                for mk in (lambda v: PauliTerm({0: "X"}, v), lambda v: PauliTerm({0: "X"}, complex(1.0, v)), lambda v: PauliTerm({0: "Y", 2: "Z"}, complex(v, v))):
                    a, b = mk(c), mk(d)
                    other = PauliTerm({1: "Z", 2: "Z"}, 1.0)
                    k += 1
                    if not (a == b and b == a):
                        return {"ok": False, "msg": "terms with coefficients %r and %r (1e-12 apart) compare unequal" % (c, d), "sig": "edges:term", "ops": k}
                    for sa, sb in ((PauliSum([a, other]), PauliSum([b, other])), (PauliSum([a, other]), PauliSum([other, b])), (PauliSum([a]), PauliSum([b]))):
                        sa, sb = sa.simplify(), sb.simplify()
                        if not (sa == sb and sb == sa):
                            return {"ok": False, "msg": "simplified sums whose like coefficients are %r and %r (1e-12 apart, same matrices to 1e-12) compare unequal" % (c, d),
                                    "expected": "equal", "observed": [repr(sa), repr(sb)], "sig": "edges:sum", "ops": k}
                    far = mk(c + 1e-3)
                    if PauliSum([a, other]) == PauliSum([far, other]):
                        return {"ok": False, "msg": "sums whose coefficients differ by 1e-3 compare equal", "sig": "edges:far", "ops": k}
    return {"ok": True, "nt": True, "ops": k, "out": "edges"}


FUNCS = {"power_histories": pow_history_case, "scalar_simplify": scalar_simplify_case, "far_qubits": far_case, "equality_edges": edge_case, "construction": construction_case, "term_pairs": binop, "term_coeffs": binop, "scalars": binop, "near_operands": binop, "scale": binop, "powers": powop, "sum_pairs": binop, "mixed": binop,
         "simplify": simplify_case, "equality": eq_case}

PAULIS = "IXYZ"


def strings(qubits):
    out = []
    for combo in itertools.product(PAULIS, repeat=len(qubits)):
        out.append({str(q): p for q, p in zip(qubits, combo) if p != "I"})
    return out


def T(c, ops):
    return {"t": [c, ops]}


def term_pool():
    return [[1.0, {"0": "X"}], [[0, 2], {"0": "Y"}], [-0.5, {"1": "Z"}], [[1, -1], {"0": "X", "1": "Y"}], [1.0, {"0": "Z", "2": "Z"}],
            [0.5, {"0": "X"}], [-1.0, {"0": "X"}], [3, {}], [0, {"1": "Y"}]]


def sums(max_terms):
    pool = term_pool()
    out = [[]]
    for k in range(1, max_terms + 1):
        for combo in itertools.combinations_with_replacement(range(len(pool)), k):
            out.append([pool[i] for i in combo])
    return out


def run(run):
    thorough = run.tier == "thorough"
    secs = []
    # --- all ordered pairs of strings
    if thorough:
        S = strings([0, 1, 2])
        pairs = [(a, b) for a in S for b in S]
        cases = [{"op": op, "a": T(1.0, a), "b": T(1.0, b)} for a, b in pairs for op in ("mul", "add", "sub")]
        S4 = strings([0, 1, 2, 3])
        cases += [{"op": "mul", "a": T(1.0, a), "b": T(1.0, b)} for a in S4 for b in S4]   # all 65 536 ordered products on four qubits
    else:
        S = strings([0, 1]) + strings([2])[1:]
        cases = [{"op": op, "a": T(1.0, a), "b": T(1.0, b)} for a in S for b in S for op in ("mul", "add", "sub")]
        S3 = strings([0, 1, 2])
        cases += [{"op": "mul", "a": T(1.0, a), "b": T(1.0, b)} for a in S3 for b in S3]
    secs.append(Section("term_pairs", cases, binop, desc="all ordered pairs of Pauli strings, unit coefficients, * + -"))
    # --- coefficient pairs on a 3-string subset (ordered pairs, incl. equal strings)
    sub = [{"0": "X"}, {"0": "Y", "1": "Z"}, {"1": "X", "2": "Y"}, {}]
    cases = [{"op": op, "a": T(ka, a), "b": T(kb, b)} for a in sub for b in sub for ka in K for kb in K for op in ("mul", "add", "sub")]
    secs.append(Section("term_coeffs", cases, binop, desc="K x K coefficient pairs on a 4-string sub-pool"))
    # --- scalars on either side
    terms = [T(c, s) for s in sub for c in (1.0, [1, -1])]
    smalls = [{"s": s} for s in sums(2)[:30]]
    cases = []
    for o in terms + smalls:
        for s in SCALARS + [0, 3]:
            n = {"n": s}
            cases += [{"op": "mul", "a": n, "b": o}, {"op": "mul", "a": o, "b": n}, {"op": "add", "a": n, "b": o}, {"op": "add", "a": o, "b": n},
                      {"op": "sub", "a": n, "b": o}, {"op": "sub", "a": o, "b": n}]
            if s != 0:
                cases.append({"op": "div", "a": o, "b": n})
    secs.append(Section("scalars", cases, binop, desc="number (op) operator and operator (op) number, + - * /"))
    # --- powers
    allstr = strings([0, 1, 2]) if thorough else strings([0, 1])
    cases = [{"a": T(c, s), "k": k} for s in allstr for c in (1.0, [0, 2], -0.5) for k in (0, 1, 2, 3, 4, -1, 1.5)]
    # unit-modulus coefficients that are not fourth roots of unity, exponents up to 8 (c**k must not be reduced like a Pauli-group element)
    cases += [{"a": T(c, s), "k": k} for s in allstr for c in ([0.6, 0.8], [0.6, -0.8], [-0.8, 0.6], [0, 1], -1.0, [0.28, 0.96]) for k in (2, 3, 4, 5, 6, 7, 8)]
    cases += [{"a": {"s": [[c, st]]}, "k": k} for st in ({"0": "X", "1": "Z"}, {}) for c in ([0.6, 0.8], [0, 1]) for k in (4, 5, 6)]
    cases += [{"a": {"s": s}, "k": k} for s in sums(3 if thorough else 2) for k in (0, 1, 2, 3, -1, 2.0)]
    secs.append(Section("powers", cases, powop, desc="a**k for k in 0..4 (terms) / 0..3 (sums); -1, 1.5, 2.0 must be refused"))
    # --- sums
    P = sums(3 if thorough else 2)
    cases = [{"op": op, "a": {"s": a}, "b": {"s": b}} for a in P for b in P for op in ("mul", "add", "sub")]
    secs.append(Section("sum_pairs", cases, binop, desc="all ordered pairs of the pool of sums, * + -"))
    Pm = sums(2)
    cases = []
    for t in term_pool():
        for s in Pm:
            for op in ("mul", "add", "sub"):
                cases.append({"op": op, "a": {"t": t}, "b": {"s": s}})
                cases.append({"op": op, "a": {"s": s}, "b": {"t": t}})
    for t in term_pool()[:6]:
        for s_ in Pm[:25]:
            for op in ("iadd", "isub", "imul"):
                cases.append({"op": op, "a": {"t": t}, "b": {"s": s_}})
                cases.append({"op": op, "a": {"s": s_}, "b": {"t": t}})
                cases.append({"op": op, "a": {"s": s_}, "b": {"n": [0.5, 2]}})
    cases += [{"op": op, "a": {"s": a_}, "b": {"s": b_}} for a_ in Pm[:25] for b_ in Pm[:25:3] for op in ("iadd", "isub", "imul")]
    cases += [{"op": op, "a": {"t": a_}, "b": {"t": b_}} for a_ in term_pool() for b_ in term_pool() for op in ("iadd", "isub", "imul")]
    secs.append(Section("mixed", cases, binop, desc="term (op) sum and sum (op) term; augmented assignments through a second name"))
    # --- nearly equal operands: coefficients differing by 1e-7 .. 1e-5 relative (well above the 1e-8 zero tolerance, below numpy's default 1e-5
    #     closeness): a - b and a + (-b) must still denote the (small, non-zero) matrix difference
    cases = []
    near_strings = [{"0": "X"}, {"0": "Y", "1": "Z"}, {}]
    for st in near_strings:
        for c, d in ((1.0, 1.000001), (1.000001, 1.0), (1000, 1000.005), (2.5, 2.5000001), ([1, 1], [1, 1.000001]), ([0, 2], [1e-6, 2]), (0.001, 0.0010001), (-0.5, -0.500002)):
            for op in ("sub", "add", "mul"):
                cases.append({"op": op, "a": T(c, st), "b": T(d, st)})
                cases.append({"op": op, "a": {"s": [[c, st], [0.5, {"2": "Z"}]]}, "b": {"s": [[0.5, {"2": "Z"}], [d, st]]}})
                cases.append({"op": op, "a": T(c, st), "b": {"s": [[d, st]]}})
                cases.append({"op": op, "a": {"s": [[c, st]]}, "b": T(d, st)})
            cases.append({"op": "sub", "a": {"n": c}, "b": T(d, {})})
            cases.append({"op": "sub", "a": T(c, {}), "b": {"n": d}})
    secs.append(Section("near_operands", cases, binop, desc="operands whose like coefficients differ by 1e-7..1e-5 relative: + - * still denote the matrix operation (to 1e-9)"))
    # --- scale: operands whose coefficients are far below the library's 1e-8 zero tolerance are still operands - multiplied or divided by a factor of the
    #     inverse size they give O(1) operators (only * and /: a sum of two tiny terms legitimately simplifies to nothing)
    cases = []
    tiny_ops = [T(3e-9, {"0": "X"}), T([0, 4e-9], {"0": "Y", "1": "Z"}), T(5e-9, {}), {"s": [[3e-9, {"0": "X"}], [4e-9, {"1": "Z"}]]}, {"s": [[3e-9, {"0": "X"}], [[0, 4e-9], {"0": "X"}], [2e-9, {}]]},
                {"s": [[1e-12, {"2": "Y"}]]}, {"s": [[3e-9, {"0": "Z"}], [1.0, {"1": "X"}]]}]
    huge_ops = [T(2e8, {"1": "Z"}), T([0, 1e9], {"0": "X"}), T(4e8, {}), {"s": [[2e8, {"0": "Y"}], [1e8, {"2": "Z"}]]}, {"s": [[1e9, {}]]}, {"n": 2e8}, {"n": [0, 1e9]}]
    for a in tiny_ops:
        for b in huge_ops:
            cases += [{"op": "mul", "a": a, "b": b}, {"op": "mul", "a": b, "b": a}]
        for dv in (5e-9, [0, 1e-9], -2.5e-10):
            cases.append({"op": "div", "a": a, "b": {"n": dv}})
    secs.append(Section("scale", cases, binop, desc="operands with coefficients of 1e-12..5e-9 times / divided by factors of 1e8..1e9: the O(1) product is the matrix product"))
    # --- far-apart / large qubit indices, and sums of many terms (size thresholds: 8 and 64 bits of index, multi-digit indices, > 64 terms)
    fq = [0, 7, 8, 9, 63, 64, 100, 1000]
    fstr = [{str(q): p_} for q in (8, 64, 1000) for p_ in "XYZ"] + [{str(a_): p_, str(b_): q_} for a_, b_ in ((0, 8), (8, 9), (7, 64), (63, 64), (9, 1000), (100, 8)) for p_, q_ in (("X", "Y"), ("Z", "X"), ("Y", "Y"))]
    fstr += [{"1": "X", "8": "Z", "64": "Y"}, {"64": "X", "8": "X", "1": "Y"}, {str(q): "Z" for q in fq}, {str(q): "XYZ"[i % 3] for i, q in enumerate(fq)}]
    cases = [{"op": op, "a": T(1.0, a), "b": T([0.5, -1], b)} for a in fstr for b in fstr for op in ("mul", "add", "sub")]
    many = [[(-1) ** i * (1 + i / 8), {str(fq[i % 8]): "XYZ"[i % 3], str(10 + i): "Z"}] for i in range(70)]
    many2 = [[0.5 + i, {str(10 + i): "X"}] for i in range(0, 70, 7)]
    cases += [{"op": op, "a": {"s": many}, "b": b} for op in ("mul", "add", "sub") for b in ({"s": many2}, T(2.0, {"10": "Y"}), {"s": many[::-1]}, {"n": 3})]
    cases += [{"op": op, "a": b, "b": {"s": many}} for op in ("mul", "add", "sub") for b in ({"s": many2}, T(2.0, {"10": "Y"}), {"n": [0, 2]})]
    # exact integers: Python-int scalars and all-integer coefficients whose products exceed 2^63 (a 64-bit integer array would wrap), on either side
    bigs = [{"n": 10 ** 10}, {"n": 2 ** 40}, {"n": -3 * 10 ** 12}, {"n": 7}]
    isums = [{"s": [[10 ** 10, {"0": "X"}], [7, {"1": "Z"}]]}, {"s": [[2 ** 62, {"8": "Y"}], [-(2 ** 61), {"8": "Z", "0": "X"}], [3, {}]]}, {"t": [10 ** 15, {"64": "Z"}]}, {"s": [[3, {"0": "Z"}], [4, {"1": "Z"}]]}]
    cases += [{"op": "mul", "a": n_, "b": o_} for n_ in bigs for o_ in isums] + [{"op": "mul", "a": o_, "b": n_} for n_ in bigs for o_ in isums]
    cases += [{"op": "mul", "a": a_, "b": b_} for a_ in isums for b_ in isums] + [{"op": op, "a": n_, "b": o_} for op in ("add", "sub") for n_ in bigs[:2] for o_ in isums]
    # every ordered pair of FULL-WEIGHT strings on 4 qubits (the per-qubit phases of a product add up over 4 shared qubits), and same-letter strings on 5-9 shared qubits
    fw = [{"t": [1.0, {str(q_): p_ for q_, p_ in enumerate(combo)}]} for combo in itertools.product("XYZ", repeat=4)]
    cases += [{"op": "mul", "a": a_, "b": b_} for a_ in fw for b_ in fw]
    for L_ in (5, 6, 7, 8, 9):
        same = [{"t": [1.0, {str(q_): p_ for q_ in range(L_)}]} for p_ in "XYZ"] + [{"t": [1.0, {str(q_): "XYZ"[(q_ + sh) % 3] for q_ in range(L_)}]} for sh in (0, 1, 2)]
        cases += [{"op": "mul", "a": a_, "b": b_} for a_ in same for b_ in same]
    secs.append(Section("far_qubits", cases, far_case, desc="all ordered pairs of %d strings on qubits {0,7,8,9,63,64,100,1000} and sums of 70 terms: * + - judged by coefficient maps" % len(fstr)))
    # --- simplify: ordered lists (order matters for like-term merging)
    pool = term_pool()
    L = 3 if thorough else 2
    cases = [{"a": {"s": [pool[i] for i in combo]}} for k in range(0, L + 1) for combo in itertools.product(range(len(pool)), repeat=k)]
    # rounding residues: like coefficients that cancel only up to floating-point rounding (0.1 + 0.2 - 0.3 = 5.6e-17) must vanish from the simplified sum
    for res in ([[0.1, {"0": "X"}], [0.2, {"0": "X"}], [1.0, {"1": "Z"}], [-0.3, {"0": "X"}]], [[0.7, {}], [0.1, {}], [-0.8, {}], [2.0, {"0": "Y"}]],
                [[[0.1, 0.3], {"1": "Y"}], [[0.2, -0.1], {"1": "Y"}], [[-0.3, -0.2], {"1": "Y"}]], [[1e-9, {"0": "Z"}], [1.0, {"1": "Z"}]], [[4e-9, {"0": "Z"}], [-3e-9, {"0": "Z"}], [1.0, {"2": "X"}]]):
        cases += [{"a": {"s": list(p)}} for p in itertools.permutations(res)]
    secs.append(Section("simplify", cases, simplify_case, desc="simplify on every ordered list of pool terms; rounding residues vanish"))
    # --- equality on all pairs of simplified pool members (+ constants and single terms)
    E = [{"s": s} for s in sums(3 if thorough else 2)] + [{"t": t} for t in pool if t[0] != 0]
    if not thorough:
        E = E[:70] + E[-9:]
    cases = [{"a": a, "b": b} for a in E for b in E]
    # terms that tie on support AND coefficient (only the Pauli letters differ), in every order; and like coefficients that fall into one hash bucket
    # (both round to 0 at 1e-6) but differ by far more than the 1e-8 tolerance
    ties = [[[1.0, {"0": "X"}], [1.0, {"0": "Z"}]], [[0.5, {"0": "X", "1": "Y"}], [0.5, {"0": "Y", "1": "X"}], [0.5, {"0": "Z", "1": "Z"}]], [[[0, 1], {"2": "Y"}], [[0, 1], {"2": "X"}]],
            [[2.0, {"0": "X"}], [2.0, {"1": "X"}], [2.0, {"0": "Y"}]]]
    tie_ops = [{"s": list(p)} for t in ties for p in itertools.permutations(t)]
    cases += [{"a": a, "b": b} for a in tie_ops for b in tie_ops]
    small = [{"s": [[c, {"0": "X"}], [1.0, {"1": "Z"}]]} for c in (2e-7, 4e-7, 1e-7, 3e-7, 4.9e-7, -2e-7)] + [{"t": [c, {"0": "X", "2": "Y"}]} for c in (2e-7, 4e-7, -3e-7, [2e-7, 2e-7], [2e-7, -2e-7])]
    cases += [{"a": a, "b": b} for a in small for b in small]
    # the same small coefficient (1e-7 .. 1e-3: above the 1e-8 tolerance, around and below numpy's default 1e-5 closeness) on DIFFERENT strings:
    # the operators differ by that much as matrices, so they are unequal - as bare terms, as one-term sums and next to an O(1) term
    for c in (1e-7, 3e-6, 5e-5, 1e-4, 1e-3, [0, 5e-5], [5e-5, 5e-5], -5e-5):
        tiny = [{"t": [c, st]} for st in ({"0": "X"}, {"0": "Z"}, {"1": "X"}, {"0": "X", "1": "Y"}, {})]
        tiny += [{"s": [[c, st]]} for st in ({"0": "X"}, {"0": "Z"}, {})] + [{"s": [[c, st], [1.0, {"2": "Z"}]]} for st in ({"0": "X"}, {"0": "Z"}, {"1": "Y"})]
        cases += [{"a": a, "b": b} for a in tiny for b in tiny]
    # operators against plain numbers, number on either side: a zero coefficient on any string is the zero operator, a constant term is its number
    numbers = [{"n": v} for v in (0, 0.0, [0, 0], 1, 1.0, -2.5, [0, 0.5], 3.0, 1e-9, [1, 1e-12])]
    opnds = [{"t": [c, st]} for st in ({}, {"0": "X"}, {"1": "Z", "2": "Y"}, {"3": "X", "1": "Z"}) for c in (0, 0.0, [0, 0], 1.0, -2.5, [0, 0.5], 3, 1e-9)]
    # sums that are (or simplify to) exactly ONE non-constant term are not numbers
    opnds += [{"s": s_} for s_ in ([[1.0, {"0": "X"}]], [[2.5, {"0": "Y", "1": "Z"}]], [[2.5, {"0": "Y", "1": "Z"}], [1.0, {"0": "Z"}], [-1.0, {"0": "Z"}]], [[-2.5, {"1": "Z"}]], [[[0, 1], {"2": "X"}]],
                                   [[1e-3, {"0": "X"}]], [[0.5, {"1": "Y"}], [0.5, {"1": "Y"}]])]
    opnds += [{"s": s_} for s_ in ([], [[0, {"0": "X"}]], [[3.0, {}]], [[1.0, {}], [2.0, {}]], [[1.0, {"0": "X"}], [-1.0, {"0": "X"}]], [[-2.5, {}], [0.0, {"1": "Y"}]], [[1.0, {}], [1.0, {"0": "Z"}]])]
    cases += [{"a": a, "b": b} for a in opnds for b in numbers] + [{"a": b, "b": a} for a in opnds for b in numbers]
    secs.append(Section("equality", cases, eq_case, desc="== on all ordered pairs of simplified pool members vs matrix equality"))
    cases = []
    for st in strings([0, 1, 2]):
        if len(st) >= 2:
            qs = sorted(int(q) for q in st)
            cases.append({"ops": st, "orders": [list(p) for p in itertools.permutations(qs)]})
    secs.append(Section("construction", cases, construction_case, desc="every string with >=2 factors built in every qubit order (dict order, product order): ==, simplify merges, sums equal"))
    ph = []
    for basec in (0.5, 2.0, -1.25):
        for dl in (1e-7, 3e-7, -2e-7, 1e-6):
            fam = [{"s": [[basec * (1 + j * dl), {"0": "X"}], [1.0, {"1": "Z"}], [0.75 * (1 - j * dl), {"0": "Y", "1": "X"}]]} for j in range(4)]
            ph.append({"ops": fam, "ks": [2, 3]})
            ph.append({"ops": fam[::-1] + [{"s": [[basec, {"0": "X"}], [1.0 + dl, {"1": "Z"}]]}, {"s": [[basec, {"0": "X"}], [1.0, {"1": "Z"}]]}], "ks": [3, 2, 4]})
    secs.append(Section("power_histories", ph, pow_history_case, chunk=1, desc="powers 2-4 of families of nearly equal sums (like coefficients 1e-7..1e-6 apart, a finite-difference sweep) taken one after the other in one process"))
    sb = [{"s": s_} for s_ in ([[1.0, {"0": "X"}], [2.0, {"1": "Z"}]], [[1.0, {"0": "X"}], [2.0, {"1": "Z"}], [1.0, {"0": "X"}]], [[0.5, {"0": "Y", "1": "X"}], [2.0, {}], [[0, 1], {"2": "Z"}]], [[3.0, {}]],
                                [[1.0, {"0": "Z"}], [-1.0, {"0": "Z"}], [2.0, {"1": "X"}]])]
    secs.append(Section("scalar_simplify", [{"a": a_, "via": v_} for a_ in sb for v_ in ("as-built", "simplified", "sum+0", "product", "copy-simplified-twice", "sum-sum")], scalar_simplify_case,
                        desc="results of arithmetic times 0 / 1e-12 on either side, divided by 1e12: both sides equal, simplify leaves no ~0 term, the zero operator equals the empty sum and 0"))
    M = 4000 if thorough else 800
    secs.append(Section("equality_edges", [{"m0": i, "m1": i + 50} for i in range(0, M, 50)], edge_case,
                        desc="equality of operators whose coefficients straddle an edge of the 1e-6 hash grid (whole and half points, +-ulp, +-1e-12), grid indices 0..%d" % M))
    run.run_sections(secs)
