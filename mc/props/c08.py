"""C08 - circuit-level constructions: inverse, controlled, gate layers, ancillas (E1)."""
import itertools

import numpy as np
from mc.ref.linalg import allclose as _close
import sympy

from mc.engine import Section, jdump
from mc.gates import G, W, mk_circuit, mk_gate, num
from mc.props.c01 import ref_unitary, pad
from mc.ref import linalg as L
from mc.snapshot import circuit as csnap

RULE = ("circuits: every sequence of <=L operations over an alphabet of self-adjoint, parametric (numeric and symbolic), wrapped (controlled/dagger/integer and "
        "fractional power/exp) and custom gates x placements on n<=3, plus empty and idle-qubit variants: inverse (adjoint, c+c^-1 = I, double inverse, width), "
        "controlled(k) for EVERY k in 0..n vs |0><0|_k (x) I + |1><1|_k (x) U(c) with qubits >= k shifted; create_layer_of_gates for n in 0..4 x factories with "
        "0..3 parameters; apply_gate_to_qubits for EVERY list of <=3 qubits over {0,1,2,5,8} (unordered, duplicates) x base circuits; add_ancilla_register "
        "for k in 0..3. non-trivial = circuit with >= 1 operation whose unitary is not the identity")
RULE += ' Also: wrappers on top of controlled gates in controlled circuits; parameter rows of zeros; layer width.'
RULE += ' Round 5: every length-3 run of same-named gates (U3, GPi2/custom, CNOT, controlled-*) for inverse(); 4-5 qubit controlled gates with complex entries for inverse() and controlled().'
ASSUMPTIONS = ["to_unitary is the ordered product (C01)", "symbolic circuits are bound before evaluation (numpy x sympy products are impossible with sympy 1.9 / numpy 2 in this image)",
               "exp gates are not unitary: for them only (c.inverse()).inverse() and widths are judged, as the statement's adjoint/identity claims presuppose unitary gates... see DESIGN 4/C08"]
BOUNDS = {"quick": {"n": 3, "L": 2}, "thorough": {"n": 3, "L": 3}}
ATOL = 1e-8
SUBS = [{"theta": 0.3, "zeta": complex(np.cos(0.7), np.sin(0.7))}, {"theta": -1.7, "zeta": complex(np.cos(-2.1), np.sin(-2.1))}]


def ops_alphabet():
    A = []
    for g in (G("X"), G("H"), G("T"), G("RX", 0.3), G("RX", "s:theta"), G("U3", 0.3, -1.1, 2.5), W("dagger", G("T")), W("power", G("T"), e=3), W("power", G("T"), e="1/2"),
              W("power", G("X"), e="1/2"), G("custom1"), G("customsym1")):
        A += [{"gate": g, "q": [q]} for q in ((0, 2) if g.get("g") in ("H", "U3") or "w" in g else (0, 1, 2))]
    for g in (G("CNOT"), G("CPHASE", 0.3), W("controlled", G("X"), k=1), G("custom2"), G("customsym2"), W("controlled", G("RY", "s:theta"), k=1)):
        A += [{"gate": g, "q": list(p)} for p in ((0, 1), (2, 0), (1, 2))]
    A.append({"gate": W("exp", G("RZ", 0.3)), "q": [1]})
    # parameters that are EXPRESSIONS of the symbol (an inverse / controlled version is built first and bound afterwards)
    # a custom gate whose parameter takes complex (unit-modulus) values: conjugation is real work for its dagger
    A += [{"gate": G("customz", "s:zeta"), "q": [0]}, {"gate": W("controlled", G("customz", "s:zeta"), k=1), "q": [2, 1]}]
    A += [{"gate": G("RX", "s:2*theta"), "q": [1]}, {"gate": G("RY", "s:theta+0.5"), "q": [2]}, {"gate": W("controlled", G("RZ", "s:-theta/2"), k=1), "q": [0, 2]}, {"gate": G("U3", "s:theta", 0.4, "s:3*theta"), "q": [0]}]
    # second members of each wrapper kind with EQUAL parameters (wrapper names alone do not identify a gate): c-Z next to c-X, S.dagger next to T.dagger, ...
    A += [{"gate": W("controlled", G("Z"), k=1), "q": list(p)} for p in ((0, 1), (2, 0), (1, 2))]
    A += [{"gate": W("dagger", G("S")), "q": [q]} for q in (0, 2)] + [{"gate": W("power", G("S"), e=3), "q": [q]} for q in (0, 2)]
    A.append({"gate": W("exp", G("RX", 0.3)), "q": [1]})
    A.append({"gate": W("controlled", G("X"), k=2), "q": [2, 0, 1]})
    # another wrapper sitting on top of a controlled gate (the number of controls is then not what the outermost wrapper shows)
    A.append({"gate": W("exp", W("controlled", G("X"), k=1)), "q": [1, 0]})
    A.append({"gate": W("dagger", W("controlled", G("T"), k=1)), "q": [2, 1]})
    A.append({"gate": W("power", W("controlled", G("SX"), k=1), e=3), "q": [0, 2]})
    return A


def has(od, pred):
    g = od["gate"]
    while True:
        if pred(g):
            return True
        if "of" not in g:
            return False
        g = g["of"]


def unitary(circ, sub):
    """ordered product of the operations' own lifted matrices; symbolic operations are bound one by one (Circuit.bind would refuse circuits
    that also contain power/exp gates, and a numpy x sympy product is impossible in this image) - Circuit.to_unitary itself is C01's subject"""
    m = {sympy.Symbol(k): v for k, v in sub.items()}
    n = circ.n_qubits
    U = np.eye(2 ** n, dtype=complex)
    for op in circ.operations:
        o = op.bind(m) if op.free_symbols else op
        U = num(o.lifted_matrix(n)) @ U
    return U


def bound_ops(ops, sub):
    """the descriptors with every symbolic parameter ('s:<expression>') replaced by its value at `sub`"""
    from mc.lib import param

    def walk(x):
        if isinstance(x, str) and x.startswith("s:"):
            v_ = complex(sympy.sympify(param(x)).subs({sympy.Symbol(k): v for k, v in sub.items()}))
            return v_.real if abs(v_.imag) < 1e-15 else "c:%r,%r" % (v_.real, v_.imag)
        if isinstance(x, list):
            return [walk(v) for v in x]
        if isinstance(x, dict):
            return {k: walk(v) for k, v in x.items()}
        return x
    return walk(ops)


def inverse_case(case):
    n = case["n"]
    c = mk_circuit(case)
    before = csnap(c)
    inv = c.inverse()
    non_unitary = any(has(o, lambda g: g.get("w") == "exp") for o in case["ops"])
    frac_herm = any(has(o, lambda g: g.get("w") == "power" and isinstance(g.get("e"), str)) for o in case["ops"])
    if inv.n_qubits != n or len(inv.operations) != len(c.operations):
        return {"ok": False, "msg": "inverse changes the width or the number of operations", "expected": [n, len(c.operations)], "observed": [inv.n_qubits, len(inv.operations)], "sig": "inverse:shape"}
    if csnap(c) != before:
        return {"ok": False, "msg": "inverse() modified its receiver", "sig": "inverse:mutated"}
    k = 1
    for sub in SUBS:
        U = ref_unitary(bound_ops(case["ops"], sub), n)
        Ui = unitary(inv, sub) if inv.operations else np.eye(2 ** n)
        if inv.operations and inv.free_symbols and not any(has(o, lambda g: g.get("w") in ("exp", "power")) for o in case["ops"]):
            # the same inverse bound as a whole (Circuit.bind) - the route a user takes - must be the same circuit as the one bound operation by operation
            whole = inv.bind({sympy.Symbol(k_): v_ for k_, v_ in sub.items()})
            k += 1
            if whole.free_symbols or not _close(unitary(whole, {}), Ui, atol=ATOL):
                return {"ok": False, "msg": "the inverse bound with Circuit.bind still has free symbols / differs from the inverse bound operation by operation", "sig": "inverse:bind", "ops": k}
        Uii = unitary(inv.inverse(), sub) if inv.operations else np.eye(2 ** n)
        if inv.operations and inv.free_symbols:
            # the inverse evaluated the other way round: every gate matrix taken while still symbolic, the values substituted afterwards
            m_ = {sympy.Symbol(k_): v_ for k_, v_ in sub.items()}
            Ul = np.eye(2 ** n, dtype=complex)
            for o_ in inv.operations:
                Ul = L.embed(num(sympy.Matrix(o_.gate.matrix).subs(m_)), tuple(o_.qubit_indices), n) @ Ul
            k += 1
            if not _close(Ul, Ui, atol=ATOL):
                return {"ok": False, "msg": "the inverse's symbolic gate matrices evaluated at %s differ from the matrices of the inverse bound first" % sub, "sig": "inverse:late-substitution", "ops": k}
        k += 2
        if not _close(Uii, U, atol=ATOL):
            return {"ok": False, "msg": "inverting twice does not return a circuit with the original action", "sig": "inverse:double" + (":frac" if frac_herm else ""), "ops": k}
        if non_unitary:
            continue
        if not _close(Ui, U.conj().T, atol=ATOL):
            sig = "inverse:adjoint"
            if frac_herm:
                # D15: predicted wrong answer = each fractional power of a gate g replaced by the same power of g.dagger
                sig = "inverse:adjoint:D15" if d15_predicts(case, sub, Ui) else sig
            return {"ok": False, "msg": "the inverse's matrix is not the conjugate transpose of the circuit's", "expected": str(np.round(U.conj().T, 4).tolist())[:300],
                    "observed": str(np.round(Ui, 4).tolist())[:300], "sig": sig, "ops": k}
        both = unitary(c + inv, sub)
        k += 1
        if (c + inv).n_qubits != n or not _close(both, np.eye(2 ** n), atol=ATOL):
            return {"ok": False, "msg": "circuit followed by its inverse is not the identity on the whole register", "sig": "inverse:identity", "ops": k}
    return {"ok": True, "nt": bool(case["ops"]), "ops": k, "out": "len%d" % len(case["ops"])}


def d15_predicts(case, sub, Ui):
    """the matrix D15 predicts for the inverse: reversed order, dagger of every op, but (g^p)^dagger computed as (g^dagger)^p"""
    n = case["n"]
    U = np.eye(2 ** n, dtype=complex)
    for od in reversed(bound_ops(case["ops"], sub)):
        g = od["gate"]
        if g.get("w") == "power" and isinstance(g.get("e"), str):
            inner = num(mk_gate(g["of"]).dagger.matrix)
            M = num(sympy.Matrix(inner.tolist()) ** (int(g["e"].split("/")[0]) / int(g["e"].split("/")[1])))
        else:
            M = num(mk_gate(g).matrix).conj().T
        U = L.embed(M, tuple(od["q"]), n) @ U
    return _close(U, Ui, atol=1e-7)


def controlled_case(case):
    """{'ops', 'n', 'k'}: control inserted at index k"""
    n, k = case["n"], case["k"]
    c = mk_circuit(case)
    before = csnap(c)
    cc = c.controlled(k)
    if csnap(c) != before:
        return {"ok": False, "msg": "controlled() modified its receiver", "sig": "controlled:mutated"}
    if len(cc.operations) != len(c.operations):
        return {"ok": False, "msg": "controlled circuit has a different number of operations", "sig": "controlled:count"}
    N = n + 1
    for sub in SUBS[:1]:
        ops = bound_ops(case["ops"], sub)
        # reference: for every op, |0><0|_k (x) I + |1><1|_k (x) op with indices >= k shifted by one
        R = np.eye(2 ** N, dtype=complex)
        for od in ops:
            M = num(mk_gate(od["gate"]).matrix)
            q = [i + 1 if i >= k else i for i in od["q"]]
            R = L.embed(L.controlled(M, 1), tuple([k] + q), N) @ R
        width = max(cc.n_qubits, 1)
        if width > N:
            return {"ok": False, "msg": "controlled circuit is wider than n+1", "observed": width, "sig": "controlled:width"}
        U = unitary(cc, sub) if cc.operations else np.eye(2 ** width)
        U = pad(U, width, N)
        if not _close(U, R, atol=ATOL):
            return {"ok": False, "msg": "controlled(%d): not identity for control=0 / original circuit on the shifted qubits for control=1" % k, "expected": str(np.round(R, 3).tolist())[:300],
                    "observed": str(np.round(U, 3).tolist())[:300], "sig": "controlled:action"}
    return {"ok": True, "nt": bool(case["ops"]), "ops": 2, "out": "k%d" % k}


FACT = {"GPi": (1, lambda: __import__("orquestra.quantum.circuits", fromlist=["GPi"]).GPi), "X": (0, lambda: __import__("orquestra.quantum.circuits", fromlist=["X"]).X), "RX": (1, lambda: __import__("orquestra.quantum.circuits", fromlist=["RX"]).RX),
        # a single-qubit gate FACTORY with 0 parameters: it is called with an empty parameter row per qubit (rows = [(), (), ...])
        "custom0": (0, lambda: __import__("mc.gates", fromlist=["custom_definition"]).custom_definition("custom1")),
        "custom1p": (2, lambda: __import__("mc.gates", fromlist=["custom_definition"]).custom_definition("custom1p")), "U3": (3, lambda: __import__("orquestra.quantum.circuits", fromlist=["U3"]).U3)}


def rows_for(npar, count, mode="default"):
    rows = [tuple(round(0.1 + 0.37 * i + 0.11 * j, 3) for j in range(npar)) for i in range(count)]
    if mode == "zero-rows":      # a row of zeros is a row like any other (angle 0 is still a gate): second row 0.0s, last row int 0s
        if count >= 2:
            rows[1] = (0.0,) * npar
        if count >= 1:
            rows[-1] = (0,) * npar
    elif mode == "all-zero":
        rows = [(0.0,) * npar for _ in range(count)]
    return rows


def op_view(op):
    return (op.gate.name, tuple(float(p) for p in op.gate.params), tuple(op.qubit_indices))


def layer_case(case):
    """{'n': n, 'f': factory name}"""
    from orquestra.quantum.circuits import create_layer_of_gates
    npar, get = FACT[case["f"]]
    f = get()
    n = case["n"]
    rows = rows_for(npar, n, case.get("rows", "default")) if npar else None
    if case["f"] == "custom0":
        rows = [() for _ in range(n)] if case.get("rows") != "all-zero" else np.zeros((n, 0))
    rows_before = list(rows) if rows is not None else None
    c = create_layer_of_gates(n, f, rows)
    if c.n_qubits != n and n > 0:
        return {"ok": False, "msg": "layer over %d qubits has width %d" % (n, c.n_qubits), "sig": "layer:width"}
    got = [op_view(o) for o in c.operations]
    name = f().name if case["f"] == "custom0" else f.name if npar == 0 else f(*rows_for(npar, 1)[0]).name
    exp = [(name, tuple(float(x) for x in (rows[i] if rows is not None and len(rows) else ())), (i,)) for i in range(n)]
    ok = sorted(got, key=lambda v: v[2]) == exp and len(got) == n
    r = {"ok": bool(ok and (rows is None or [tuple(x) for x in rows] == [tuple(x) for x in rows_before])), "nt": n >= 2 and npar >= 1, "out": "p%d" % npar}
    if not r["ok"]:
        r.update(msg="layer of %s over %d qubits: not exactly one gate per qubit with the i-th row on qubit i" % (case["f"], n), expected=str(exp), observed=str(got), sig="layer")
    return r


def apply_case(case):
    """{'qs': [...], 'f': name, 'base': index}"""
    from orquestra.quantum import circuits as C
    npar, get = FACT[case["f"]]
    f = get()
    bases = [C.Circuit(), C.Circuit([C.H(0), C.CNOT(0, 1)]), C.Circuit([C.T(3)], n_qubits=6)]
    base = bases[case["base"]]
    before = csnap(base)
    qs = case["qs"]
    distinct = sorted(set(qs))
    rows = rows_for(npar, len(distinct), case.get("rows", "default")) if npar else None
    if case["f"] == "custom0":
        rows = [() for _ in distinct]
    import warnings
    with warnings.catch_warnings():
        warnings.simplefilter("ignore")
        for container in (list, tuple):
            out = C.apply_gate_to_qubits(base, container(qs), f, list(rows) if rows is not None else None)
            if csnap(base) != before:
                return {"ok": False, "msg": "apply_gate_to_qubits modified the base circuit", "sig": "apply:mutated"}
            nb = len(base.operations)
            if [o for o in out.operations[:nb]] != list(base.operations):
                return {"ok": False, "msg": "existing operations are not left in place as a prefix", "sig": "apply:prefix"}
            added = [op_view(o) for o in out.operations[nb:]]
            name = f().name if case["f"] == "custom0" else f.name if npar == 0 else f(*rows_for(npar, 1)[0]).name
            bad = None
            if any(a[0] != name or len(a[2]) != 1 for a in added):
                bad = "added operations are not the single-qubit gate"
            elif sorted(a[2][0] for a in added) != distinct:
                bad = "added gates do not sit exactly once on each distinct listed qubit"
            elif rows is not None and sorted(a[1] for a in added) != sorted(tuple(float(x) for x in r) for r in rows):
                bad = "parameter rows are not each used exactly once"
            if bad:
                return {"ok": False, "msg": "apply_gate_to_qubits(%s, %s): %s" % (qs, case["f"], bad), "expected": "qubits %s" % distinct, "observed": str(added), "sig": "apply"}
            want_w = max([base.n_qubits] + [q + 1 for q in distinct])
            if out.n_qubits != want_w:
                return {"ok": False, "msg": "resulting width", "expected": want_w, "observed": out.n_qubits, "sig": "apply:width"}
    return {"ok": True, "nt": len(distinct) >= 1 and len(qs) != len(distinct), "ops": 2, "out": "d%d" % len(distinct)}


def ancilla_case(case):
    from orquestra.quantum.circuits import add_ancilla_register
    n, k = case["n"], case["k"]
    c = mk_circuit(case)
    before = csnap(c)
    e = add_ancilla_register(c, k)
    if csnap(c) != before:
        return {"ok": False, "msg": "add_ancilla_register modified its argument", "sig": "ancilla:mutated"}
    if e.n_qubits != n + k:
        return {"ok": False, "msg": "ancilla register of %d qubits widens a %d-qubit circuit to %d" % (k, n, e.n_qubits), "expected": n + k, "observed": e.n_qubits, "sig": "ancilla:width"}
    U = ref_unitary(bound_ops(case["ops"], SUBS[0]), n)
    Ue = unitary(e, SUBS[0]) if e.operations else np.eye(2 ** (n + k))
    if not _close(Ue, np.kron(U, np.eye(2 ** k)), atol=ATOL):
        return {"ok": False, "msg": "adding ancillas changed the action on the original qubits", "sig": "ancilla:action"}
    return {"ok": True, "nt": k >= 2, "ops": 2, "out": "k%d" % k}


FUNCS = {"inverse_runs": inverse_case, "inverse": inverse_case, "controlled": controlled_case, "layers": layer_case, "apply_to_qubits": apply_case, "ancilla": ancilla_case}


def run(run):
    thorough = run.tier == "thorough"
    A = ops_alphabet()
    Lmax = 3 if thorough else 2
    circs = [{"ops": [], "n": 1}, {"ops": [], "n": 3}]
    for ln in range(1, Lmax + 1):
        idx = itertools.product(range(len(A)), repeat=ln) if ln <= 2 else itertools.product(range(0, len(A), 2), repeat=ln)
        for combo in idx:
            circs.append({"ops": [A[i] for i in combo], "n": 3})
    circs += [{"ops": [A[i]], "n": 4} for i in range(0, len(A), 4)]
    # runs of operations whose gates share one NAME (U3 with different angles, GPi2, CNOT, the wrapper name of every controlled gate) in every order of length 3
    # (thorough 4): neighbours on disjoint qubits, a later operation returning to an earlier qubit - the reversal must be by operation, whatever "layers" are visible
    fams = [([{"gate": G("U3", *t), "q": [q]} for t in ((0.3, -1.1, 2.5), (1.0, 0.2, -0.4)) for q in (0, 1)], 2),
            ([{"gate": G("GPi2", a), "q": [q]} for a in (0.3, 1.2) for q in (0, 1)] + [{"gate": G("custom1p", 0.3, 0.7), "q": [0]}, {"gate": G("custom1p", -0.2, 0.4), "q": [1]}], 2),
            ([{"gate": G("CNOT"), "q": list(q)} for q in ((0, 1), (2, 3), (1, 0), (3, 1))], 4),
            ([{"gate": W("controlled", G("X"), k=1), "q": [0, 1]}, {"gate": W("controlled", G("RY", 0.3), k=1), "q": [2, 3]}, {"gate": W("controlled", G("Z"), k=1), "q": [3, 0]},
              {"gate": W("controlled", G("T"), k=1), "q": [1, 0]}, {"gate": W("controlled", G("H"), k=2), "q": [2, 0, 1]}], 4)]
    runs_ = []
    for fam, n in fams:
        for ln in ((3, 4) if thorough else (3,)):
            for combo in itertools.product(range(len(fam)), repeat=ln):
                if len(set(combo)) > 1:
                    runs_.append({"ops": [fam[i] for i in combo], "n": n})
    # gates on 4-5 qubits with complex entries (wide controlled gates), alone and under one more control
    big = [{"ops": [{"gate": W("controlled", G("T"), k=3), "q": [3, 0, 2, 1]}], "n": 4}, {"ops": [{"gate": W("controlled", G("RX", 0.3), k=2), "q": [2, 0, 1]}, {"gate": G("S"), "q": [0]}], "n": 3},
           {"ops": [{"gate": W("controlled", G("U3", 0.3, -1.1, 2.5), k=4), "q": [4, 3, 0, 2, 1]}], "n": 5}, {"ops": [{"gate": W("controlled", G("Y"), k=3), "q": [0, 1, 2, 3]}, {"gate": G("H"), "q": [3]}], "n": 4},
           {"ops": [{"gate": W("controlled", W("controlled", W("controlled", W("controlled", G("PHASE", 0.7), k=1), k=1), k=1), k=1), "q": [0, 1, 2, 3, 4]}], "n": 5}]
    secs = [Section("inverse_runs", runs_ + big, inverse_case, horizon=300, desc="inverse() on every length-3 run of same-named gates (4 families: U3, GPi2/custom, CNOT, controlled-*) and on 4-5 qubit controlled gates with complex entries")]
    secs += [Section("inverse", circs, inverse_case, horizon=300, desc="inverse(): adjoint, c + c^-1 = identity, double inverse, width")]
    cc = []
    for c in circs:
        if len(c["ops"]) <= 2 and not any(has(o, lambda g: g.get("w") == "power" and isinstance(g.get("e"), str)) for o in c["ops"][:0]):
            for k in range(0, c["n"] + 1):
                cc.append({**c, "k": k})
    if not thorough:
        cc = [c for c in cc if len(c["ops"]) <= 1] + [c for i, c in enumerate(cc) if len(c["ops"]) == 2 and i % 5 == 0]
    cc += [{**c, "k": k} for c in big for k in range(0, c["n"] + 1)]
    secs.append(Section("controlled", cc, controlled_case, horizon=300, desc="controlled(k) for every k in 0..n"))
    secs.append(Section("layers", [{"n": n, "f": f, "rows": rm} for n in range(0, 6) for f in FACT for rm in ("default", "zero-rows", "all-zero")], layer_case,
                        desc="create_layer_of_gates for n in 0..5 x factories with 0..3 parameters x row sets (distinct rows, rows of zeros)"))
    Q = [0, 1, 2, 5, 8]
    qlists = [list(c) for k in range(0, 4) for c in itertools.product(Q, repeat=k)]
    secs.append(Section("apply_to_qubits", [{"qs": qs, "f": f, "base": b, "rows": rm} for qs in qlists for f in FACT for b in range(3) for rm in (("default", "zero-rows") if FACT[f][0] else ("default",))], apply_case, desc="apply_gate_to_qubits on every list of <=3 qubits over {0,1,2,5,8}"))
    secs.append(Section("ancilla", [{**c, "k": k} for c in circs if len(c["ops"]) <= 1 for k in range(0, 4)], ancilla_case, horizon=300, desc="add_ancilla_register for k in 0..3"))
    run.run_sections(secs)
