"""C09 - operator-to-matrix conversions agree with the operator's definition (E1)."""
import itertools

import numpy as np
from mc.ref.linalg import allclose as _close

from mc.engine import Section, jdump
from mc.lib import mk_op, op_terms, coef
from mc.ref import pauli as rp
from mc.ref import linalg as L

RULE = ("operators: every Pauli string with <=3 non-identity factors on index sets inside {0..3} (gaps included) x coefficient set, "
        "constants, sums of <=S terms from a pool (duplicates, zero coefficients, empty sum); each on every width n in [own, own+2] "
        "and n=None; matrices for the Pauli expansion: all E_ij x scalars, all Pauli-string matrices and all sums of two of them; "
        "states: polarisation set {e_i, (e_i+e_j)/sqrt2, (e_i+i e_j)/sqrt2}. non-trivial = reference matrix non-zero and not a multiple of identity")
RULE += ' Also: registers of 9-11 qubits (every single-qubit Pauli on every qubit, Z-only and mixed sums) against a vectorised bit-arithmetic reference.'
RULE += ' Round 5: the exported expectation() with the state as 1-D array, column vector and sparse density matrix.'
ASSUMPTIONS = ["numpy dense arithmetic is correct", "reference Pauli matrices are built from X|b>=|1-b>, Y|0>=i|1>, Z|b>=(-1)^b|b> by bit arithmetic"]
BOUNDS = {"quick": {"max_index": 3, "factors": 3, "sum_terms": 2, "expansion_qubits": 2},
          "thorough": {"max_index": 3, "factors": 3, "sum_terms": 3, "expansion_qubits": 3}}
ATOL = 1e-9
COEFS = [1.0, -0.5, [0, 2], [1, -1]]


def terms_of(desc):
    return [desc["t"]] if "t" in desc else desc["s"]


def width(desc):
    qs = [int(q) for _, ops in terms_of(desc) for q, p in ops.items() if p != "I"]
    return max(qs) + 1 if qs else 0


def ref_matrix(desc, n):
    return rp.sum_matrix([(coef(c), ops) for c, ops in terms_of(desc)], n)


def impl_dense(op, n):
    """dense matrix denoted by a library operator, via its public terms and the reference Pauli matrices"""
    return rp.sum_matrix([(c, ops) for c, ops in op_terms(op)], n)


def nontrivial(M):
    return bool(np.abs(M).max() > 1e-12 and not _close(M, M[0, 0] * np.eye(M.shape[0])))


def sparse_case(case):
    """{'op':desc,'n':n|None}"""
    from orquestra.quantum.operators import get_sparse_operator
    op = mk_op(case["op"])
    w = width(case["op"])
    n = case["n"]
    if n is not None and n < w:
        try:
            get_sparse_operator(op, n)
        except ValueError:
            return {"ok": True, "nt": True, "out": "ValueError"}
        return {"ok": False, "msg": "n smaller than the operator width accepted", "sig": "sparse:small-n"}
    nn = w if n is None else n
    exp = ref_matrix(case["op"], nn)
    S = get_sparse_operator(op) if n is None else get_sparse_operator(op, n)
    got = np.asarray(S.toarray(), dtype=complex)
    ok = got.shape == exp.shape and _close(got, exp, atol=ATOL)
    r = {"ok": bool(ok), "nt": nontrivial(exp), "out": "w%d->n%s" % (w, n)}
    if not ok:
        r.update(msg="sparse matrix differs from the tensor-product definition", expected=str(np.round(exp, 4).tolist())[:500],
                 observed=str(np.round(got, 4).tolist())[:500], sig="sparse:matrix")
    return r


def herm_case(case):
    from orquestra.quantum.operators import hermitian_conjugated, is_hermitian
    op = mk_op(case["op"])
    n = max(width(case["op"]), 1)
    M = ref_matrix(case["op"], n)
    hc = hermitian_conjugated(op)
    got = impl_dense(hc, n)
    r = {"ok": True, "nt": nontrivial(M), "ops": 2}
    if not _close(got, M.conj().T, atol=ATOL):
        return {**r, "ok": False, "msg": "hermitian_conjugated does not denote the conjugate transpose", "expected": str(np.round(M.conj().T, 4).tolist())[:400],
                "observed": repr(hc), "sig": "herm:conj"}
    if not _close(impl_dense(op, n), M, atol=ATOL):
        return {**r, "ok": False, "msg": "hermitian_conjugated modified its argument", "sig": "herm:mutated"}
    simp = op.simplify() if hasattr(op, "simplify") else op
    isH = bool(is_hermitian(simp))
    refH = bool(_close(M, M.conj().T, atol=1e-9))
    r["out"] = "H" if refH else "nonH"
    if isH != refH:
        return {**r, "ok": False, "msg": "is_hermitian disagrees with the matrix for a simplified operator", "expected": refH, "observed": isH, "sig": "herm:test"}
    # the same test asked of the matrix the operator denotes (sparse as the library hands it out, dense, and a plain copy): the operator and its matrix are Hermitian together
    from orquestra.quantum.operators import get_sparse_operator
    sp = get_sparse_operator(simp, n_qubits=n) if len(getattr(simp, "terms", [1])) else None
    if sp is not None:
        import scipy.sparse
        coo = scipy.sparse.coo_matrix(sp)
        dim = coo.shape[0]
        # the same matrix with an explicitly STORED zero that has no mirror entry, in CSR / CSC / COO form, and as the result of sparse products (P (P A P) P with a permutation P - stored
        # patterns of products need not be symmetric): which entries happen to be stored says nothing about Hermiticity
        stored0 = scipy.sparse.coo_matrix((np.concatenate([coo.data, [0.0]]), (np.concatenate([coo.row, [0]]), np.concatenate([coo.col, [dim - 1]]))), shape=coo.shape)
        perm = scipy.sparse.csr_matrix((np.ones(dim), (np.arange(dim), (np.arange(dim) * 3 + 1) % dim if dim % 3 else (np.arange(dim) + 1) % dim)), shape=(dim, dim))
        prod = (perm.T @ ((perm @ sp @ perm.T) @ perm)).tocsr()
        variants = [("sparse matrix", sp), ("dense matrix", np.asarray(sp.toarray())), ("reference matrix", np.array(M))]
        if dim >= 2:
            variants += [("CSR with a stored zero", stored0.tocsr()), ("CSC with a stored zero", stored0.tocsc()), ("product of sparse matrices", prod)]
        for kind, mat in variants:
            try:
                mh = bool(is_hermitian(mat))
            except Exception as e:  # noqa: BLE001
                return {**r, "ok": False, "msg": "is_hermitian(%s of the operator) raises %s: %s" % (kind, type(e).__name__, str(e)[:80]), "sig": "herm:matrix-raises"}
            r["ops"] += 1
            if mh != refH:
                return {**r, "ok": False, "msg": "is_hermitian(%s) says %s, the operator it belongs to is %sHermitian" % (kind, mh, "" if refH else "not "), "expected": refH, "observed": mh, "sig": "herm:matrix-test"}
    return r


def unit(n, i, j):
    M = np.zeros((2 ** n, 2 ** n), dtype=complex)
    M[i, j] = 1
    return M


def build_matrix(desc, n):
    """desc: list of ['E', i, j, scalar] | ['P', 'XZ..', scalar]"""
    M = np.zeros((2 ** n, 2 ** n), dtype=complex)
    for d in desc:
        if d[0] == "E":
            M = M + complex(coef(d[3])) * unit(n, d[1], d[2])
        else:
            M = M + complex(coef(d[2])) * rp.string_matrix({q: p for q, p in enumerate(d[1]) if p != "I"}, n)
    return M


def expansion_case(case):
    """{'n':n,'m':matrix-desc,'as':'list'|'array'}"""
    from orquestra.quantum.operators import get_sparse_operator
    from orquestra.quantum.operators._utils import get_pauliop_from_matrix
    n = case["n"]
    M = build_matrix(case["m"], n)
    how = case.get("as", "list")
    # the same matrix in the memory layouts numpy hands around: nested lists, C order, Fortran order, a transposed view, a strided slice of a larger array, a read-only array
    if how == "list":
        arg = M.tolist()
    elif how == "fortran":
        arg = np.asfortranarray(M)
    elif how == "tview":
        arg = np.ascontiguousarray(M.T).T
    elif how == "adjoint-of-adjoint":
        arg = M.conj().T.conj().T
    elif how == "strided":
        big = np.zeros((2 * M.shape[0], 2 * M.shape[1]), dtype=complex)
        big[::2, ::2] = M
        arg = big[::2, ::2]
    elif how == "readonly":
        arg = M.copy()
        arg.setflags(write=False)
    else:
        arg = M
    keep = np.array(arg, dtype=complex, copy=True)
    op = get_pauliop_from_matrix(arg)
    if not np.array_equal(np.asarray(arg, dtype=complex), keep):
        return {"ok": False, "msg": "get_pauliop_from_matrix modified the matrix it was given", "sig": "expansion:mutated"}
    back = impl_dense(op, n)
    r = {"ok": True, "nt": nontrivial(M), "ops": 2, "out": "terms%d" % min(len(op.terms), 9)}
    if not _close(back, M, atol=ATOL):
        return {**r, "ok": False, "msg": "Pauli expansion does not denote the input matrix", "expected": str(np.round(M, 4).tolist())[:400],
                "observed": repr(op)[:400], "sig": "expansion:value"}
    S = np.asarray(get_sparse_operator(op, n).toarray(), dtype=complex)
    if not _close(S, M, atol=ATOL):
        return {**r, "ok": False, "msg": "expansion -> sparse does not reproduce the matrix", "expected": str(np.round(M, 4).tolist())[:400],
                "observed": str(np.round(S, 4).tolist())[:400], "sig": "expansion:roundtrip"}
    return r


def reverse_case(case):
    """{'op':desc,'n':n|None}"""
    from orquestra.quantum.operators import reverse_qubit_order
    op = mk_op(case["op"])
    w = width(case["op"])
    n = case["n"]
    if n is not None and n < w:
        try:
            reverse_qubit_order(op, n)
        except ValueError:
            return {"ok": True, "out": "ValueError"}
        return {"ok": False, "msg": "reverse_qubit_order accepted n below the operator width", "sig": "reverse:small-n"}
    nn = w if n is None else n
    if nn == 0:
        nn = 1
    M = ref_matrix(case["op"], nn)
    once = reverse_qubit_order(op) if n is None else reverse_qubit_order(op, n)
    exp = np.zeros_like(M)
    for i in range(2 ** nn):
        for j in range(2 ** nn):
            exp[L.bitrev(i, nn), L.bitrev(j, nn)] = M[i, j]
    r = {"ok": True, "nt": nontrivial(M) and not _close(exp, M), "ops": 2, "out": "w%d->n%s" % (w, n)}
    if not _close(impl_dense(once, nn), exp, atol=ATOL):
        return {**r, "ok": False, "msg": "reversing once is not the bit-reversal permutation of the matrix", "expected": str(np.round(exp, 4).tolist())[:400],
                "observed": repr(once), "sig": "reverse:once"}
    twice = reverse_qubit_order(once, nn) if (n is not None or w == nn) else reverse_qubit_order(once, nn)
    if not _close(impl_dense(twice, nn), M, atol=ATOL):
        return {**r, "ok": False, "msg": "reversing twice is not the identity", "expected": str(np.round(M, 4).tolist())[:400], "observed": repr(twice), "sig": "reverse:twice"}
    if not _close(impl_dense(op, nn), M, atol=ATOL):
        return {**r, "ok": False, "msg": "reverse_qubit_order modified its argument", "sig": "reverse:mutated"}
    return r


def states(n):
    d = 2 ** n
    out = []
    for i in range(d):
        v = np.zeros(d, dtype=complex); v[i] = 1
        out.append(("e%d" % i, v))
    for i in range(d):
        for j in range(i + 1, d):
            v = np.zeros(d, dtype=complex); v[i] = 1 / np.sqrt(2); v[j] = 1 / np.sqrt(2)
            out.append(("e%d+e%d" % (i, j), v))
            v = np.zeros(d, dtype=complex); v[i] = 1 / np.sqrt(2); v[j] = 1j / np.sqrt(2)
            out.append(("e%d+ie%d" % (i, j), v))
    return out


def expect_case(case):
    """{'op':desc,'n':n}: <psi|M|psi> over the polarisation set (determines the sesquilinear form)"""
    from orquestra.quantum.operators import get_expectation_value
    from orquestra.quantum.wavefunction import Wavefunction
    op = mk_op(case["op"])
    n = case["n"]
    M = ref_matrix(case["op"], n)
    Mr = np.zeros_like(M)
    for i in range(2 ** n):
        for j in range(2 ** n):
            Mr[L.bitrev(i, n), L.bitrev(j, n)] = M[i, j]
    k = 0
    for nm, v in states(n):
        wf = Wavefunction(v.copy())
        got = complex(get_expectation_value(op, wf))
        exp = complex(np.vdot(v, M @ v))
        k += 1
        if abs(got - exp) > ATOL:
            return {"ok": False, "msg": "expectation value != <psi|M|psi> for psi=%s" % nm, "expected": str(exp), "observed": str(got), "sig": "expect:value", "ops": k}
        # the exported low-level `expectation`: state as a 1-D array, as a column vector, and as the sparse density matrix |psi><psi| (two sparse formats);
        # with width = the operator's own width the register is exactly n only for n == own width, so it is fed the sparse matrix of width n
        import scipy.sparse as sp
        from orquestra.quantum.operators import expectation, get_sparse_operator
        S = get_sparse_operator(op, n_qubits=n)
        rho = np.outer(v, v.conj())
        for what, st in (("1-D array", v.copy()), ("column vector", v.copy().reshape(-1, 1)), ("csc density matrix", sp.csc_matrix(rho)), ("csr density matrix", sp.csr_matrix(rho))):
            got = complex(expectation(S, st))
            k += 1
            if abs(got - exp) > ATOL:
                return {"ok": False, "msg": "expectation(sparse operator, state as %s) != <psi|M|psi> for psi=%s" % (what, nm), "expected": str(exp), "observed": str(got), "sig": "expect:lowlevel", "ops": k}
        got = complex(get_expectation_value(op, wf, reverse_operator=True))
        exp = complex(np.vdot(v, Mr @ v))
        k += 1
        if abs(got - exp) > ATOL:
            return {"ok": False, "msg": "reverse_operator=True expectation != <psi|rev(M)|psi> for psi=%s" % nm, "expected": str(exp), "observed": str(got),
                    "sig": "expect:reversed", "ops": k}
    return {"ok": True, "nt": nontrivial(M), "ops": k, "out": "n%d" % n}


def wide_case(case):
    """{'n': n, 'terms': [[coef, {q: P}]..]}: registers of 9-11 qubits (bit positions beyond one byte): the sparse matrix equals the bit-arithmetic definition
    column by column (X|b>=|1-b>, Y|b>=i(-1)^b|1-b>, Z|b>=(-1)^b|b>, qubit 0 = most significant bit), expectation values of basis states follow"""
    import scipy.sparse as sp
    from orquestra.quantum.operators import PauliSum, PauliTerm, get_sparse_operator
    from orquestra.quantum.operators import get_expectation_value
    from orquestra.quantum.wavefunction import Wavefunction
    n = case["n"]
    N = 2 ** n
    idx = np.arange(N)
    R = sp.csr_matrix((N, N), dtype=complex)
    terms = []
    for c, ops in case["terms"]:
        c = complex(*c) if isinstance(c, list) else c
        mask = 0
        vals = np.full(N, complex(c))
        for q, P in ops.items():
            pos = n - 1 - int(q)
            bit = (idx >> pos) & 1
            if P in "XY":
                mask |= 1 << pos
            if P == "Y":
                vals = vals * 1j * (1 - 2 * bit)
            if P == "Z":
                vals = vals * (1 - 2 * bit)
        R = R + sp.csr_matrix((vals, (idx ^ mask, idx)), shape=(N, N))
        terms.append(PauliTerm({int(q): P for q, P in ops.items()}, c) if ops else PauliTerm("I0", c))
    op = PauliSum(terms) if len(terms) != 1 else terms[0]
    M = sp.csr_matrix(get_sparse_operator(op, n_qubits=n))
    if M.shape != (N, N):
        return {"ok": False, "msg": "sparse operator on %d qubits has shape %s" % (n, M.shape), "sig": "wide:shape"}
    D = M - R
    err = np.abs(D.data).max() if D.nnz else 0.0
    if err > 1e-12:
        D = D.tocoo()
        j = int(np.argmax(np.abs(D.data)))
        return {"ok": False, "msg": "sparse matrix of %s on %d qubits differs from the tensor-product definition at entry (%d, %d)" % (op, n, D.row[j], D.col[j]), "expected": str(R[D.row[j], D.col[j]]),
                "observed": str(M[D.row[j], D.col[j]]), "sig": "wide:sparse"}
    # expectation value in basis states with the highest / lowest qubits set
    for b in (0, 1, 1 << (n - 1), (1 << (n - 1)) | 1, N - 1, 1 << (n // 2)):
        v = np.zeros(N, dtype=complex)
        v[b] = 1
        got = get_expectation_value(op, Wavefunction(v))
        exp = R[b, b]
        if abs(complex(got) - complex(exp)) > 1e-12:
            return {"ok": False, "msg": "expectation value of %s in basis state %d of %d qubits" % (op, b, n), "expected": str(exp), "observed": str(got), "sig": "wide:expectation"}
    return {"ok": True, "nt": True, "ops": 7, "out": "n%d" % n}


FUNCS = {"wide": wide_case, "sparse": sparse_case, "hermitian": herm_case, "expansion": expansion_case, "reverse": reverse_case, "expectation": expect_case}


def strings(max_index=3, max_factors=3):
    out = []
    for k in range(0, max_factors + 1):
        for qs in itertools.combinations(range(max_index + 1), k):
            for ps in itertools.product("XYZ", repeat=k):
                out.append({str(q): p for q, p in zip(qs, ps)})
    return out


def term_pool():
    return [[1.0, {"0": "X"}], [[0, 2], {"1": "Y"}], [-0.5, {"0": "Z", "2": "Z"}], [[1, -1], {"0": "X", "1": "Y"}], [1.0, {"3": "Y"}], [2.0, {}],
            [0.5, {"0": "X"}], [-1.0, {"0": "X"}], [0, {"1": "Z"}], [[0, 1], {}], [1.0, {"1": "Z", "3": "X"}], [[0.5, 0.25], {"0": "Y", "2": "X", "3": "Z"}]]


def sums(k):
    P = term_pool()
    out = [[]]
    for m in range(1, k + 1):
        for combo in itertools.combinations_with_replacement(range(len(P)), m):
            out.append([P[i] for i in combo])
    return out


def run(run):
    deep = run.tier == "thorough"      # the former thorough bounds are the quick tier now
    thorough = True
    S = strings(4, 3)
    terms = [{"t": [c, s]} for s in S for c in (COEFS if thorough or len(s) <= 2 else COEFS[:2])]
    terms += [{"t": [0, {"1": "X"}]}, {"t": [0, {}]}]
    sms = [{"s": s} for s in sums(4 if deep else 3)]
    ops = terms + sms
    cases = []
    for o in ops:
        w = width(o)
        for n in [None] + list(range(max(w - 1, 0), w + 3)):
            cases.append({"op": o, "n": n})
    secs = [Section("sparse", cases, sparse_case, desc="get_sparse_operator on every operator x widths [own-1 (refused), own .. own+2, None]")]
    secs.append(Section("hermitian", [{"op": o} for o in ops], herm_case, desc="hermitian_conjugated denotes the adjoint; is_hermitian <=> matrix Hermitian (simplified operators)"))
    # Pauli expansion of matrices
    cases = []
    SC = [1, [0, 1], [0.5, -2]]
    for n in (1, 2, 3) if thorough else (1, 2):
        d = 2 ** n
        singles = [["E", i, j, s] for i in range(d) for j in range(d) for s in SC] + [["P", "".join(p), 1] for p in itertools.product("IXYZ", repeat=n)]
        cases += [{"n": n, "m": [a]} for a in singles]
        cases += [{"n": n, "m": [a], "as": "array"} for a in singles[::7]]
        cases += [{"n": n, "m": [a, b_], "as": how_} for how_ in ("fortran", "tview", "adjoint-of-adjoint", "strided", "readonly") for a in singles[::5] for b_ in singles[3::11]]
        if n <= 2:
            cases += [{"n": n, "m": [a, b]} for a in singles for b in singles]
        else:
            sub = singles if deep else singles[::5]
            cases += [{"n": n, "m": [a, b]} for a in sub for b in sub]
    secs.append(Section("expansion", cases, expansion_case, desc="get_pauliop_from_matrix on E_ij x scalars, Pauli matrices and sums of two; round trip through get_sparse_operator"))
    cases = []
    for o in ops:
        w = width(o)
        for n in [None, w, w + 1] + ([w - 1] if w >= 2 else []):
            cases.append({"op": o, "n": n})
    secs.append(Section("reverse", cases, reverse_case, desc="reverse_qubit_order once = bit reversal, twice = identity, widths [own, own+1, None]"))
    cases = []
    small = [o for o in ops if width(o) <= 3]
    for o in (small if thorough else small[::3]):
        w = max(width(o), 1)
        for n in sorted({w, min(w + 1, 3)}):
            cases.append({"op": o, "n": n})
    secs.append(Section("expectation", cases, expect_case, desc="get_expectation_value (and reverse_operator=True) over the polarisation set of states"))
    wc = []
    for n in ((9, 10, 11) if deep else (9, 10)):
        for q in range(n):
            for P in "XYZ":
                wc.append({"n": n, "terms": [[1.0, {str(q): P}]]})
        wc += [{"n": n, "terms": [[-0.5, {"0": "Z", str(n - 1): "Z"}], [2.0, {str(n - 2): "Z"}], [1.5, {}]]}, {"n": n, "terms": [[[0, 2], {"0": "Y", str(n - 1): "X"}], [1.0, {"1": "Z", str(n - 1): "Y"}]]},
               {"n": n, "terms": [[1.0, {str(q): "Z" for q in range(n)}]]}, {"n": n, "terms": [[0.25, {str(q): "Z"}] for q in range(n)]}, {"n": n, "terms": [[1.0, {"3": "X"}]]}]
        wc.append({"n": n, "terms": [[1.0, {"0": "Z"}]]})
    secs.append(Section("wide", wc, wide_case, horizon=600, desc="registers of 9-10 (thorough 11) qubits: every single-qubit Pauli on every qubit, Z-only and mixed sums, against a vectorised bit-arithmetic reference"))
    run.run_sections(secs)
