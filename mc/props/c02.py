"""C02 - every built-in gate is a valid unitary that keeps its textbook identities (E1 + trigonometric cut-off)."""
import itertools

import numpy as np
from mc.ref.linalg import allclose as _close
import sympy

from mc.engine import Section
from mc import cutoff
from mc.ref import linalg as L

RULE = ("all 27 table entries; per gate: matrix computable symbolically and numerically, dimension 2^num_qubits, degree certificate of the entries as "
        "trigonometric polynomials in the half angles (walked from the expressions the real factory returns), then U^dagger U - I, the Hermitian flag, "
        "dagger and the additive group law on a tensor grid with 2*deg(residual)+1 points per parameter - which decides the identity for ALL real "
        "parameters; fixed relations exactly; history: all gates built in one process at exact int / negative / float / sympy values with every matrix held until the end. non-trivial = parametric gate with a certificate / a fixed relation between two different gates")
RULE += ' Held history also at exact symbolic constants (pi, pi/2, 2pi, pi/3 ...: exact zeros of sin/cos) and tiny angles (1.5e-8, -4e-8, 3e-7).'
RULE += ' Round 8: angles given as symbols of every single-letter and common name; matrices asked for from a worker thread.'
RULE += ' Round 6: compound real expressions as parameters of every parametric gate (direct / bind / replace_params).'
RULE += ' Round 5: every returned matrix must have the declared dimension before anything is computed with it; parameters as fractions.Fraction, signed zeros, large values; the same real values reached through compound expressions (theta+2u at u=0, two-step binds).'
ASSUMPTIONS = ["sympy evaluates its own expressions at numbers correctly (lambdify/evalf)", "cut-off: a trigonometric polynomial of degree <= D vanishing on 2D+1 equispaced points vanishes identically",
               "grid residuals <= 1e-10 imply sup-norm residual <= 1e-10 * prod(2D_i+1)"]
BOUNDS = {"quick": {"grid": "certificate-sized tensor grid", "U3_numeric_path_points": 27}, "thorough": {"grid": "certificate-sized tensor grid", "U3_numeric_path_points": "all grid points"}}
EPS = 1e-10

TABLE = [("X", 0, 1, True), ("Y", 0, 1, True), ("Z", 0, 1, True), ("H", 0, 1, True), ("I", 0, 1, True), ("S", 0, 1, False), ("SX", 0, 1, False), ("T", 0, 1, False),
         ("RX", 1, 1, None), ("RY", 1, 1, None), ("RZ", 1, 1, None), ("RH", 1, 1, None), ("PHASE", 1, 1, None), ("U3", 3, 1, None), ("GPi", 1, 1, None), ("GPi2", 1, 1, None),
         ("CNOT", 0, 2, True), ("CZ", 0, 2, True), ("SWAP", 0, 2, True), ("ISWAP", 0, 2, False), ("CPHASE", 1, 2, None), ("XX", 1, 2, None), ("YY", 1, 2, None), ("ZZ", 1, 2, None),
         ("XY", 1, 2, None), ("MS", 2, 2, None), ("Delay", 1, 1, None)]
GROUP = ["RX", "RY", "RZ", "RH", "PHASE", "CPHASE", "XX", "YY", "ZZ", "XY"]


def get_gate(name, params=()):
    from orquestra.quantum import circuits as C
    ref = getattr(C, name)
    return ref(*params) if callable(ref) and not hasattr(ref, "matrix") else ref


class Viol(Exception):
    """a verdict found deep inside an oracle: carries the failing-case dict"""


def viol_guard(fn):
    def wrapped(case):
        try:
            return fn(case)
        except Viol as v:
            return v.args[0]
    wrapped.__doc__ = fn.__doc__
    return wrapped


def N(M, d=None, what=""):
    """numeric value of a matrix the library returned; with d: it must be d x d (the declared dimension) before anything is computed with it"""
    A = np.array(sympy.Matrix(M).evalf(), dtype=complex)
    if d is not None and A.shape != (d, d):
        raise Viol({"ok": False, "msg": "%s: matrix has shape %s, the gate declares dimension %d" % (what, A.shape, d), "sig": "matrix:shape"})
    return A


@viol_guard
def expression_case(case):
    """{'gate': name, 'npar': k, 'nq': q}: parameters given as COMPOUND real expressions (2*t, t + u, -t, t/3 + 0.1, cos(t), t*u) - directly and reached by binding a bare symbol to the
    expression: the matrix is computable, has the declared dimension, is unitary at real assignments, and equals the bare-symbol matrix with the expression substituted"""
    name, k, nq = case["gate"], case["npar"], case["nq"]
    t, u = sympy.Symbol("t", real=True), sympy.Symbol("u", real=True)
    slots = sympy.symbols("s0:%d" % k, real=True)
    base = N_sym = get_gate(name, tuple(slots)).matrix
    exprs = [2 * t, t + u, -t, t / 3 + 0.1, sympy.cos(t), t * u, t - u / 2, 3 * t + sympy.pi / 4, sympy.Rational(1, 2) * (t + 1)]
    ops = 0
    # the angle may be a symbol of ANY name (single letters included - a factory's own placeholder names must not capture them), alone and inside a sum
    import string
    vals = [0.37 + 0.11 * j for j in range(k)]
    want = N(get_gate(name, tuple(vals)).matrix, 2 ** nq, name)
    for nm in list(string.ascii_lowercase) + ["theta", "phi", "lambda_", "angle", "gamma", "x0", "cs", "I0"]:
        sy = sympy.Symbol(nm)
        for ps_, sub_ in ((tuple([sy] + vals[1:]), {sy: vals[0]}), (tuple([sy + t] + vals[1:]), {sy: vals[0] - 0.2, t: 0.2})):
            try:
                A = N(sympy.Matrix(get_gate(name, ps_).matrix).subs(sub_), 2 ** nq, "%s%s" % (name, ps_))
            except Viol:
                raise
            except Exception as e:  # noqa: BLE001
                return {"ok": False, "msg": "%s with the angle %s: matrix cannot be computed / evaluated: %s: %s" % (name, ps_[0], type(e).__name__, str(e)[:80]), "sig": "expr:symbol-name", "ops": ops}
            ops += 1
            if not _close(A, want, atol=1e-10):
                return {"ok": False, "msg": "%s with the angle given as %s (a symbol named %r), evaluated at %s, is not the gate's matrix there" % (name, ps_[0], nm, sub_), "sig": "expr:symbol-name", "ops": ops}
    # the same matrices asked for from a worker thread (a thread pool evaluating circuits): same values
    import concurrent.futures
    with concurrent.futures.ThreadPoolExecutor(max_workers=1) as ex_:
        try:
            B = ex_.submit(lambda: N(get_gate(name, tuple(vals)).matrix, 2 ** nq, name)).result(timeout=300)
        except Viol:
            raise
        except Exception as e:  # noqa: BLE001
            return {"ok": False, "msg": "%s%s: the matrix cannot be computed in a worker thread: %s: %s" % (name, tuple(vals), type(e).__name__, str(e)[:80]), "sig": "expr:thread", "ops": ops}
    if not _close(B, want, atol=1e-12):
        return {"ok": False, "msg": "%s: matrix computed in a worker thread differs" % name, "sig": "expr:thread", "ops": ops}
    for rot in range(len(exprs)):
        ps = tuple(exprs[(rot + 2 * i) % len(exprs)] for i in range(k))
        for route in ("direct", "bind", "replace_params"):
            try:
                if route == "direct":
                    g = get_gate(name, ps)
                elif route == "bind":
                    g = get_gate(name, tuple(slots)).bind(dict(zip(slots, ps)))
                else:
                    g = get_gate(name, tuple(0.5 for _ in ps)).replace_params(ps)
                M = g.matrix
            except Exception as e:  # noqa: BLE001
                return {"ok": False, "msg": "%s%s (%s): the matrix of a gate whose parameters are compound expressions cannot be computed: %s: %s" % (name, ps, route, type(e).__name__, str(e)[:100]), "sig": "expr:matrix-raises", "ops": ops}
            for asg in ({t: 0.37, u: -1.21}, {t: 2.9, u: 0.55}):
                A = N(sympy.Matrix(M).subs(asg), 2 ** nq, "%s%s (%s)" % (name, ps, route))
                E = N(sympy.Matrix(base).subs({s_: sympy.sympify(p).subs(asg) for s_, p in zip(slots, ps)}), 2 ** nq, name)
                ops += 1
                if not _close(A, E, atol=1e-10):
                    return {"ok": False, "msg": "%s%s (%s) at %s is not the gate's matrix at the values of the expressions" % (name, ps, route, {str(a): b for a, b in asg.items()}),
                            "expected": str(np.round(E, 5).tolist())[:300], "observed": str(np.round(A, 5).tolist())[:300], "sig": "expr:value", "ops": ops}
                if not _close(A.conj().T @ A, np.eye(2 ** nq), atol=1e-10):
                    return {"ok": False, "msg": "%s%s (%s) is not unitary at real values" % (name, ps, route), "sig": "expr:unitary", "ops": ops}
    return {"ok": True, "nt": True, "ops": ops, "out": name}


@viol_guard
def gate_case(case):
    """{'gate': name, 'npar': k, 'nq': q, 'numeric_points': m}"""
    name, k, nq = case["gate"], case["npar"], case["nq"]
    syms = sympy.symbols("theta phi lam", real=True)[:k]
    g = get_gate(name, syms)
    if g.num_qubits != nq:
        return {"ok": False, "msg": "%s declares %s qubits" % (name, g.num_qubits), "expected": nq, "sig": "table:arity"}
    try:
        M = g.matrix
    except Exception as e:  # noqa: BLE001
        return {"ok": False, "msg": "%s: matrix cannot be computed for symbolic real parameters: %s: %s" % (name, type(e).__name__, e), "sig": "matrix:uncomputable"}
    d = 2 ** g.num_qubits
    if tuple(M.shape) != (d, d):
        return {"ok": False, "msg": "%s: matrix shape %s, declared qubits %d" % (name, M.shape, g.num_qubits), "sig": "matrix:shape"}
    ops = 1
    if k == 0:
        U = N(M)
        if not _close(U.conj().T @ U, np.eye(d), atol=1e-12):
            return {"ok": False, "msg": "%s is not unitary" % name, "observed": str(np.round(U, 6).tolist()), "sig": "unitary"}
        if g.is_hermitian and not _close(U, U.conj().T, atol=1e-12):
            return {"ok": False, "msg": "%s is flagged self-adjoint but differs from its conjugate transpose" % name, "sig": "hermitian-flag"}
        Dg = N(g.dagger.matrix)
        if not _close(Dg, U.conj().T, atol=1e-12):
            return {"ok": False, "msg": "%s.dagger is not the conjugate transpose" % name, "sig": "dagger"}
        return {"ok": True, "nt": False, "ops": 4, "out": "fixed", "extra": {"certified": 1}}
    deg = cutoff.matrix_degree(M, list(syms))
    certified = deg is not None
    degs = [deg[s] for s in syms] if certified else [2] * k
    f = sympy.lambdify(syms, M, "numpy")
    grid = cutoff.tensor_grid(degs, factor=2)
    worst = 0.0
    for pt in grid:
        U = np.array(f(*pt), dtype=complex)
        ops += 1
        r = np.abs(U.conj().T @ U - np.eye(d)).max()
        worst = max(worst, r)
        if r > EPS:
            return {"ok": False, "msg": "%s%s is not unitary" % (name, tuple(round(x, 4) for x in pt)), "observed": "max |U^dagger U - I| = %.3e" % r, "sig": "unitary", "ops": ops}
        if g.is_hermitian and np.abs(U - U.conj().T).max() > EPS:
            return {"ok": False, "msg": "%s%s is flagged self-adjoint but differs from its conjugate transpose" % (name, tuple(round(x, 4) for x in pt)), "sig": "hermitian-flag", "ops": ops}
    # numeric call path (Python floats in) agrees with the symbolic path, and dagger is the adjoint, on (a sub-grid of) the grid
    sub = grid if len(grid) <= case["numeric_points"] else [grid[i] for i in np.linspace(0, len(grid) - 1, case["numeric_points"]).astype(int)]
    for pt in sub:
        gp = get_gate(name, tuple(float(x) for x in pt))
        try:
            Un = N(gp.matrix, d, "%s%s" % (name, pt))
        except Viol:
            raise
        except Exception as e:  # noqa: BLE001
            return {"ok": False, "msg": "%s%s: matrix cannot be computed: %s" % (name, pt, e), "sig": "matrix:uncomputable-numeric", "ops": ops}
        ops += 2
        if np.abs(Un - np.array(f(*pt), dtype=complex)).max() > 1e-9:
            return {"ok": False, "msg": "%s%s: numeric call path differs from the symbolic matrix evaluated at the same point" % (name, pt), "sig": "matrix:paths-differ", "ops": ops}
        Dg = N(gp.dagger.matrix, d, "%s%s.dagger" % (name, pt))
        if np.abs(Dg - Un.conj().T).max() > 1e-9:
            return {"ok": False, "msg": "%s%s.dagger is not the conjugate transpose (is_hermitian=%s)" % (name, tuple(round(x, 4) for x in pt), g.is_hermitian), "sig": "dagger", "ops": ops}
    # (a) the Hermitian flag and dagger are functions of the parameter VALUES, not polynomials: special values are checked explicitly;
    # (b) a gate reached by replace_params / bind from a gate whose matrix was already evaluated must have the matrix of ITS parameters
    special = [0, 0.0, np.pi / 2, np.pi, -np.pi, 2 * np.pi, 4 * np.pi, 1]
    seed_gate = get_gate(name, tuple(0.6 + i for i in range(k)))
    _ = seed_gate.matrix
    _ = g.matrix
    for pt in itertools.product(special, repeat=k) if k <= 2 else [(a, a, a) for a in special] + [(0, np.pi, 0.5), (0.5, 0, 0)]:
        gp = get_gate(name, pt)
        Un = N(gp.matrix, d, "%s%s" % (name, pt))
        ops += 3
        if gp.is_hermitian and np.abs(Un - Un.conj().T).max() > 1e-9:
            return {"ok": False, "msg": "%s%s is flagged self-adjoint but differs from its conjugate transpose" % (name, pt), "sig": "hermitian-flag", "ops": ops}
        if np.abs(N(gp.dagger.matrix, d, "%s%s.dagger" % (name, pt)) - Un.conj().T).max() > 1e-9:
            return {"ok": False, "msg": "%s%s.dagger is not the conjugate transpose (is_hermitian=%s)" % (name, pt, gp.is_hermitian), "sig": "dagger", "ops": ops}
        if np.abs(Un.conj().T @ Un - np.eye(d)).max() > 1e-9:
            return {"ok": False, "msg": "%s%s is not unitary" % (name, pt), "sig": "unitary", "ops": ops}
        fpt = tuple(float(x) for x in pt)
        for route, other in (("replace_params after .matrix", seed_gate.replace_params(fpt)), ("bind after .matrix", g.bind(dict(zip(syms, fpt))))):
            if np.abs(N(other.matrix, d, "%s%s by %s" % (name, fpt, route)) - np.array(f(*fpt), dtype=complex)).max() > 1e-9 or tuple(float(x) for x in other.params) != fpt:
                return {"ok": False, "msg": "%s%s obtained by %s does not have the matrix of its parameters" % (name, fpt, route), "sig": "matrix:stale-after-" + route.split(" ")[0], "ops": ops}
        # (c) the same real values reached through compound parameter expressions: theta_i + 2u with u bound to exactly 0, and (one parameter) 0*theta + 2u
        u = sympy.Symbol("u", real=True)
        routes = [("bind of theta+2u at u=0", get_gate(name, tuple(sy + 2 * u for sy in syms)), {**dict(zip(syms, fpt)), u: 0})]
        if k == 1:
            routes.append(("bind of theta+2u at theta=0", get_gate(name, (syms[0] + 2 * u,)), {syms[0]: 0, u: fpt[0] / 2}))
            routes.append(("two-step bind of 2*theta*u", get_gate(name, (2 * syms[0] * u,)).bind({u: 0.5}), {syms[0]: fpt[0]}))
        for route, comp, smap in routes:
            ops += 1
            other = comp.bind(smap)
            try:
                Uo = N(other.matrix, d, "%s%s by %s" % (name, fpt, route))
            except Viol:
                raise
            except Exception as e:  # noqa: BLE001
                return {"ok": False, "msg": "%s%s reached by %s: matrix cannot be computed (%s: %s); parameters reported: %s" % (name, fpt, route, type(e).__name__, e, other.params), "sig": "matrix:uncomputable-after-bind", "ops": ops}
            if np.abs(Uo - np.array(f(*fpt), dtype=complex)).max() > 1e-9:
                return {"ok": False, "msg": "%s%s reached by %s does not have the matrix of its parameter values" % (name, fpt, route), "sig": "matrix:bind-route", "ops": ops}
    if name == "Delay":
        for dly in (0, 1, 2.5, sympy.Symbol("d")):
            if sympy.Matrix(get_gate("Delay", (dly,)).matrix) != sympy.eye(2):
                return {"ok": False, "msg": "Delay(%s) is not the identity" % dly, "sig": "delay"}
    return {"ok": True, "nt": True, "ops": ops, "out": "certified" if certified else "grid-only", "extra": {"certified": int(certified), "grid_points": len(grid)},
            "key": "%s deg=%s grid=%d worst=%.1e" % (name, degs, len(grid), worst)}


@viol_guard
def group_case(case):
    """{'gate': name}: U(a)U(b) = U(a+b) on the 2-D certificate grid, U(0) = I"""
    name = case["gate"]
    t = sympy.Symbol("theta", real=True)
    g = get_gate(name, (t,))
    M = g.matrix
    deg = cutoff.matrix_degree(M, [t])
    certified = deg is not None
    D = deg[t] if certified else 2
    f = sympy.lambdify([t], M, "numpy")
    d = 2 ** g.num_qubits
    if np.abs(np.array(f(0.0), dtype=complex) - np.eye(d)).max() > EPS or np.abs(N(get_gate(name, (0,)).matrix, d, "%s(0)" % name) - np.eye(d)).max() > EPS or np.abs(N(get_gate(name, (0.0,)).matrix, d, "%s(0.0)" % name) - np.eye(d)).max() > EPS:
        return {"ok": False, "msg": "%s(0) is not the identity" % name, "sig": "group:zero"}
    pts = cutoff.grid_points(2 * D + 1)   # residual U(a)U(b) - U(a+b) has degree D in a and D in b
    ops = 0
    for a in pts:
        for b in pts:
            ops += 1
            R = np.array(f(a), dtype=complex) @ np.array(f(b), dtype=complex) - np.array(f(a + b), dtype=complex)
            if np.abs(R).max() > EPS:
                return {"ok": False, "msg": "%s(a) %s(b) != %s(a+b) at a=%.4f b=%.4f" % (name, name, name, a, b), "observed": "residual %.3e" % np.abs(R).max(), "sig": "group:law", "ops": ops}
    # numeric path on the diagonal of the grid
    for a, b in zip(pts, pts[::-1]):
        R = N(get_gate(name, (float(a),)).matrix, d, name) @ N(get_gate(name, (float(b),)).matrix, d, name) - N(get_gate(name, (float(a + b),)).matrix, d, name)
        ops += 1
        if np.abs(R).max() > 1e-9:
            return {"ok": False, "msg": "%s(a) %s(b) != %s(a+b) on the numeric path" % (name, name, name), "sig": "group:law-numeric", "ops": ops}
    return {"ok": True, "nt": True, "ops": ops, "out": "certified" if certified else "grid-only", "extra": {"certified": int(certified)}}


def relation_case(case):
    from orquestra.quantum import circuits as C
    r = case["rel"]
    m = lambda g: N(g.matrix)  # noqa: E731
    X, Z = m(C.X), m(C.Z)
    checks = {
        "S*S=Z": lambda: (m(C.S) @ m(C.S), Z), "T*T=S": lambda: (m(C.T) @ m(C.T), m(C.S)), "SX*SX=X": lambda: (m(C.SX) @ m(C.SX), X),
        "H*Z*H=X": lambda: (m(C.H) @ Z @ m(C.H), X), "CNOT=diag(I,X)": lambda: (m(C.CNOT), L.controlled(X, 1)), "CNOT=X.controlled(1)": lambda: (m(C.CNOT), m(C.X.controlled(1))),
        "CZ=diag(I,Z)": lambda: (m(C.CZ), L.controlled(Z, 1)), "CZ=Z.controlled(1)": lambda: (m(C.CZ), m(C.Z.controlled(1))),
        "X,Y,Z textbook": lambda: (np.hstack([X, m(C.Y), Z, m(C.I)]), np.hstack([np.array([[0, 1], [1, 0]]), np.array([[0, -1j], [1j, 0]]), np.diag([1, -1]), np.eye(2)])),
    }
    if r == "SWAP":
        S = m(C.SWAP)
        for a in range(2):
            for b in range(2):
                v = np.zeros(4); v[2 * a + b] = 1
                w = np.zeros(4); w[2 * b + a] = 1
                if not _close(S @ v, w, atol=1e-12):
                    return {"ok": False, "msg": "SWAP does not exchange |%d%d>" % (a, b), "sig": "relation:SWAP"}
        return {"ok": True, "nt": True, "out": "rel"}
    got, exp = checks[r]()
    ok = _close(got, exp, atol=1e-12)
    res = {"ok": bool(ok), "nt": True, "out": "rel"}
    if not ok:
        res.update(msg="fixed relation %s fails" % r, expected=str(np.round(exp, 6).tolist()), observed=str(np.round(got, 6).tolist()), sig="relation:" + r)
    return res


def flags_case(case):
    """the table: every name exists, arity as listed, hermitian flag as the table says for fixed gates"""
    name, k, nq, herm = case["entry"]
    g = get_gate(name, tuple(0.3 + i for i in range(k)))
    if g.num_qubits != nq or g.name != name or len(g.params) != k:
        return {"ok": False, "msg": "table entry %s: name/arity/params" % name, "observed": str((g.name, g.num_qubits, g.params)), "sig": "table"}
    return {"ok": True, "nt": False, "out": "flag%s" % g.is_hermitian}


@viol_guard
def held_case(case):
    """{'order': 'fwd'|'rev'}: ONE process builds every gate of the table at many exact parameter values (ints, negative ints, floats, sympy numbers),
    keeps every gate object and every returned matrix, and only afterwards checks them: each gate reports the parameters it was asked for, each held
    matrix is unchanged since it was returned and equals the symbolic matrix at its parameters, and the group law holds between HELD matrices"""
    import math
    from fractions import Fraction
    vals1 = [-2, -1, 0, 1, 2, 3, -1.0, -2.0, 0.5, sympy.Integer(-1), sympy.Integer(-2), sympy.Rational(1, 2), math.pi, -0.5,
             Fraction(1, 2), Fraction(3, 2), Fraction(-7, 3), Fraction(3, 1), 0.0, -0.0, 10 ** 3, 7.25, -13.5, 100.0,
             # exact symbolic constants (exact zeros of cos/sin appear: nothing may divide by them) and tiny angles (entries of order 1e-8 are still entries)
             sympy.pi, sympy.pi / 2, 2 * sympy.pi, -sympy.pi, sympy.pi / 3, 3 * sympy.pi, 1.5e-8, -4e-8, 3e-7]
    valsk = [-2, -1, 0.5]
    valsk_exact = [sympy.pi, 0, sympy.pi / 2]
    valsk_frac = [Fraction(3, 2), 0.0]
    table = TABLE if case["order"] == "fwd" else TABLE[::-1]
    held, funcs = [], {}
    ops = 0
    for name, k, nq, _ in table:
        syms = sympy.symbols("theta phi lam", real=True)[:k]
        if k:
            funcs[name] = sympy.lambdify(syms, get_gate(name, syms).matrix, "numpy")
        pts = [()] if k == 0 else [(v,) for v in vals1] if k == 1 else list(itertools.product(valsk, repeat=k)) + list(itertools.product(valsk_exact, repeat=k)) + list(itertools.product(valsk_frac, repeat=k)) + [(1.5e-8,) * k]
        if case["order"] == "rev":
            pts = pts[::-1]
        for pt in pts:
            g = get_gate(name, pt)
            ops += 1
            if g.name != name or len(g.params) != k or any(abs(complex(a) - complex(b)) > 0 for a, b in zip(g.params, pt)):
                return {"ok": False, "msg": "%s%s was asked for, the gate returned reports %s%s" % (name, pt, g.name, tuple(g.params)), "sig": "held:params", "ops": ops}
            M = g.matrix
            if tuple(M.shape) != (2 ** nq, 2 ** nq):
                return {"ok": False, "msg": "%s%s: matrix has shape %s, the gate declares %d qubit(s)" % (name, pt, tuple(M.shape), nq), "sig": "matrix:shape", "ops": ops}
            held.append((name, pt, g, M, sympy.ImmutableMatrix(M)))
    for name, pt, g, M, snap in held:
        ops += 1
        if sympy.ImmutableMatrix(M) != snap:
            return {"ok": False, "msg": "the matrix returned for %s%s changed while other gate matrices were computed" % (name, pt), "expected": str(snap), "observed": str(M), "sig": "held:aliased", "ops": ops}
        if pt:
            exp = np.array(funcs[name](*[complex(x).real for x in pt]), dtype=complex)
            try:
                got = N(M)
            except Exception as e:  # noqa: BLE001
                return {"ok": False, "msg": "%s%s: the matrix has entries that are not numbers (%s): %s" % (name, pt, e, M), "sig": "held:not-a-number", "ops": ops}
            if not np.all(np.isfinite(got)) or np.abs(got - exp).max() > 1e-9 or np.abs(N(g.matrix) - exp).max() > 1e-9:
                return {"ok": False, "msg": "%s%s: held matrix / re-read matrix is not the gate's matrix at these parameters" % (name, pt), "sig": "held:value", "ops": ops}
    by = {}
    for name, pt, g, M, snap in held:
        if name in GROUP:
            by.setdefault(name, []).append((complex(pt[0]).real, M))
    for name, lst in by.items():
        for (a, Ma), (b, Mb) in itertools.product(lst, repeat=2):
            ops += 1
            R = N(Ma) @ N(Mb) - np.array(funcs[name](a + b), dtype=complex)
            if np.abs(R).max() > 1e-9:
                return {"ok": False, "msg": "%s(%s) %s(%s) != %s(a+b) for matrices held at the same time" % (name, a, name, b, name), "sig": "held:group", "ops": ops}
    return {"ok": True, "nt": True, "ops": ops, "out": "held"}


FUNCS = {"expression_params": expression_case, "held": held_case, "gates": gate_case, "group_law": group_case, "relations": relation_case, "table": flags_case}


def run(run):
    thorough = run.tier == "thorough"
    secs = [Section("gates", [{"gate": n, "npar": k, "nq": q, "numeric_points": 100000 if thorough else 27} for n, k, q, _ in TABLE], gate_case, horizon=600, chunk=1,
                    desc="unitarity, dimension, Hermitian flag, dagger on the certificate grid (all 27 gates)"),
            Section("group_law", [{"gate": n} for n in GROUP], group_case, horizon=600, chunk=1, desc="U(a)U(b)=U(a+b), U(0)=I on the 2-D certificate grid"),
            Section("relations", [{"rel": r} for r in ("S*S=Z", "T*T=S", "SX*SX=X", "H*Z*H=X", "CNOT=diag(I,X)", "CNOT=X.controlled(1)", "CZ=diag(I,Z)", "CZ=Z.controlled(1)",
                                                        "X,Y,Z textbook", "SWAP")], relation_case, desc="fixed relations to 1e-12"),
            Section("table", [{"entry": list(e)} for e in TABLE], flags_case, desc="gate table entries exist with the listed arity"),
            Section("held", [{"order": "fwd"}, {"order": "rev"}], held_case, horizon=900, chunk=1, desc="one process: all gates at exact int/negative/float/sympy parameter values, all matrices held, then "
                    "checked (reported parameters, no aliasing between returned matrices, value, group law between held matrices)")]
    secs.append(Section("expression_params", [{"gate": n, "npar": k, "nq": q} for n, k, q, _ in TABLE if k and n != "Delay"], expression_case, horizon=900, chunk=1,
                        desc="every parametric gate with compound real expressions as parameters (directly, through bind, through replace_params): computable, declared dimension, unitary, = the bare-symbol matrix with the expression substituted"))
    run.run_sections(secs)
    cov = [s for s in run.sections.values()]
    cert = sum(s["extra"].get("certified", 0) for s in cov)
    run.notes.append("cutoff_certified_cases=%d" % cert)
