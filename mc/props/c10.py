"""C10 - statistics computed from measurements are the exact sample statistics (E1, Fractions reference)."""
import itertools
from fractions import Fraction as F

import numpy as np

from mc.engine import Section
from mc.ref import stats as rs

RULE = ("histories: every sequence of <=D public mutations/queries on one Measurements object vs a plain-list model; shots: every multiset of bitstrings of width w with N shots (each in sorted and reversed list order); operators: every ordered "
        "list of <=T Z-subsets of the register (constant, repeated and overlapping supports included) with position-dependent coefficients, "
        "single terms with each coefficient (also as bare PauliTerm), all-integer coefficients, small (1e-5) and large (1e6) coefficients; Bessel on/off. non-trivial = at least two distinct bitstrings among the shots and an operator with a "
        "non-constant term; distinct = (shots list, operator block)")
RULE += ' Also: marked qubits given as tuple / set / frozenset / dict keys / PauliTerm.qubits / one-shot iterators and generators; bitstrings of 33..130 bits.'
RULE += ' Round 7: zero-coefficient terms in parity tallies; shots whose bits are numpy scalars (uint8 / int8 / bool / int64 / uint16).'
RULE += ' Round 6: shots of 5-7 bits with operators over every subset (unevenly spaced qubit triples / quadruples).'
RULE += ' Round 6: ONE operator object through every history of <= 3 evaluations (values, parity tallies, frequencies through term.qubits, is_ising, simplify, str).'
RULE += ' Round 5: marked qubits as one-shot iterators / generators / map objects.'
ASSUMPTIONS = ["exact rational arithmetic (fractions.Fraction) as reference", "floating point results compared at 1e-12 relative to the natural scale of each entry (|c_i|, |c_i c_j|, |c_i c_j|/denominator)"]
BOUNDS = {"quick": {"w<=2": "N<=4, <=3 terms", "w=3": "N<=3, <=2 terms"}, "thorough": {"w<=2": "N<=5, <=3 terms", "w=3": "N<=5, <=3 terms"}}
TOL = 1e-12
COEFS = [F(2), F(-1, 2), F(3, 2)]


def subsets(w):
    return [list(s) for k in range(w + 1) for s in itertools.combinations(range(w), k)]


ICOEFS = [F(2), F(-5), F(3)]
SCOEFS = [F(1, 100000), F(-3, 100000), F(1000000)]   # small and large coefficients: statistics scale with them, nothing may be snapped to zero


def operators(w, T):
    """list of operator descriptors: [[coef(as [num,den]), qubits], ...]; a denominator of 0 marks a Python-int coefficient"""
    S = subsets(w)
    out = []
    # operators whose coefficients are ALL Python ints (dtype inference must not truncate the statistics)
    for k in range(1, min(T, 3) + 1):
        for combo in itertools.product(S, repeat=k):
            out.append([[[int(ICOEFS[i]), 0], s] for i, s in enumerate(combo)])
    for k in range(1, min(T, 2) + 1):
        for combo in itertools.product(S, repeat=k):
            out.append([[[SCOEFS[i].numerator, SCOEFS[i].denominator], s] for i, s in enumerate(combo)])
            if k == 2:
                out.append([[[SCOEFS[i + 1].numerator, SCOEFS[i + 1].denominator], s] for i, s in enumerate(combo)])
    for s in S:
        for c in COEFS:
            out.append([[[c.numerator, c.denominator], s]])
    for k in range(2, T + 1):
        for combo in itertools.product(S, repeat=k):
            out.append([[[COEFS[i].numerator, COEFS[i].denominator], s] for i, s in enumerate(combo)])
    return out


def mk_operator(desc, as_sum=True):
    from orquestra.quantum.operators import PauliTerm, PauliSum
    terms = [PauliTerm({q: "Z" for q in qs}, (c[0] / c[1]) if c[1] else int(c[0])) for c, qs in desc]
    if len(terms) == 1 and not as_sum:
        return terms[0]
    return PauliSum(terms)


def close(a, b, scale=1.0):
    """relative to the natural scale of the quantity (product of the coefficients involved / denominator)"""
    return abs(complex(a) - complex(b)) <= TOL * max(abs(float(scale)), 1e-300)


def stats_case(case):
    """{'shots': [[bits]..], 'w': w, 'T': max terms, 'block': [i0, i1]}: every operator of the block x Bessel on/off"""
    from orquestra.quantum.measurements import Measurements
    shots = [tuple(s) for s in case["shots"]]
    N = len(shots)
    ops = operators(case["w"], case["T"])[case["block"][0]:case["block"][1]]
    m = Measurements(list(shots))
    n_eval = 0
    distinct = len(set(shots)) >= 2
    nt = False
    for desc in ops:
        for as_sum in ((True, False) if len(desc) == 1 else (True,)):
            op = mk_operator(desc, as_sum)
            cs = [F(c[0], c[1] or 1) for c, _ in desc]
            v = [[rs.eig(s, qs) for s in shots] for _, qs in desc]
            means = [cs[i] * rs.mean([F(x) for x in v[i]]) for i in range(len(desc))]
            corr = [[cs[i] * cs[j] * rs.mean([F(a * b) for a, b in zip(v[i], v[j])]) for j in range(len(desc))] for i in range(len(desc))]
            for bessel in ((False, True) if N >= 2 else (False,)):
                ev = m.get_expectation_values(op, use_bessel_correction=bessel)
                n_eval += 1
                den = N - 1 if bessel else N
                vals = np.asarray(ev.values)
                if vals.shape != (len(desc),) or not all(close(vals[i], float(means[i]), cs[i]) for i in range(len(desc))):
                    return {"ok": False, "msg": "expectation values are not coefficient x sample mean", "expected": [str(x) for x in means], "observed": str(vals.tolist()),
                            "sig": "stats:values", "ops": n_eval, "case_detail": str(desc)}
                C = np.asarray(ev.correlations[0])
                K = np.asarray(ev.estimator_covariances[0])
                for i in range(len(desc)):
                    for j in range(len(desc)):
                        if not close(C[i, j], float(corr[i][j]), cs[i] * cs[j]):
                            return {"ok": False, "msg": "correlation [%d,%d] is not the sample mean of the product (op %s)" % (i, j, desc), "expected": str(corr[i][j]),
                                    "observed": str(C[i, j]), "sig": "stats:correlations", "ops": n_eval}
                        cov = (corr[i][j] - means[i] * means[j]) / den
                        if not close(K[i, j], float(cov), cs[i] * cs[j] / den):
                            return {"ok": False, "msg": "covariance [%d,%d] is not (corr - mean*mean)/%s (bessel=%s, op %s)" % (i, j, den, bessel, desc), "expected": str(cov),
                                    "observed": str(K[i, j]), "sig": "stats:covariance", "ops": n_eval}
            if distinct and any(qs for _, qs in desc):
                nt = True
    if [tuple(b) for b in m.bitstrings] != shots:
        return {"ok": False, "msg": "get_expectation_values modified the measurements", "sig": "stats:mutated", "ops": n_eval}
    return {"ok": True, "nt": nt, "ops": n_eval, "out": "N%d" % N}


def counts_case(case):
    """{'shots': [...], 'w': w}: counts, from_counts, add_counts, distribution, frequencies, parities"""
    from collections import Counter
    from orquestra.quantum.measurements import Measurements, get_expectation_value_from_frequencies, get_parities_from_measurements, check_parity
    from orquestra.quantum.measurements.parities import check_parity_of_vector
    from orquestra.quantum.operators import PauliTerm, PauliSum
    shots = [tuple(s) for s in case["shots"]]
    N, w = len(shots), case["w"]
    m = Measurements(list(shots))
    ref = Counter("".join(map(str, s)) for s in shots)
    counts = m.get_counts()
    k = 1
    if dict(counts) != dict(ref) or sum(counts.values()) != N:
        return {"ok": False, "msg": "get_counts is not the histogram of the shots", "expected": dict(ref), "observed": dict(counts), "sig": "counts:histogram"}
    m2 = Measurements.from_counts(dict(counts))
    k += 1
    if Counter(map(tuple, m2.bitstrings)) != Counter(shots) or m2.get_counts() != counts:
        return {"ok": False, "msg": "from_counts(get_counts()) is not the same multiset", "expected": str(Counter(shots)), "observed": str(m2.bitstrings), "sig": "counts:roundtrip"}
    m3 = Measurements(list(shots))
    m3.add_counts(dict(counts))
    k += 1
    if Counter(map(tuple, m3.bitstrings)) != Counter(shots + shots):
        return {"ok": False, "msg": "add_counts does not add exactly the counted shots", "observed": str(m3.bitstrings), "sig": "counts:add"}
    d = m.get_distribution().distribution_dict
    k += 1
    if set(d) != {tuple(int(c) for c in key) for key in ref} or any(abs(d[tuple(int(c) for c in key)] - ref[key] / N) > TOL for key in ref):
        return {"ok": False, "msg": "empirical distribution is not counts / N", "expected": {k_: v / N for k_, v in ref.items()}, "observed": str(d), "sig": "counts:distribution"}
    S = subsets(w)
    for qs in S:
        exp = rs.mean([F(rs.eig(s, qs)) for s in shots])
        got = get_expectation_value_from_frequencies(qs, dict(counts))
        k += 1
        if abs(got - float(exp)) > TOL:
            return {"ok": False, "msg": "expectation from frequencies on qubits %s" % qs, "expected": str(exp), "observed": got, "sig": "counts:frequencies"}
        # the marked qubits may come in any iterable the library itself hands out (PauliTerm.qubits is a set) or a caller may hold
        for kind, marked in (("tuple", tuple(qs)), ("set", set(qs)), ("frozenset", frozenset(qs)), ("reversed list", list(qs)[::-1]), ("dict keys", {q: "Z" for q in qs}.keys()),
                             ("PauliTerm.qubits", PauliTerm({q: "Z" for q in qs}, 1.0).qubits if qs else set()),
                             # one-shot iterables: whatever is done with them can be done only once
                             ("iterator", iter(list(qs))), ("generator", (q for q in qs)), ("map object", map(int, list(qs))), ("range", range(qs[0], qs[-1] + 1) if list(qs) == list(range(qs[0], qs[-1] + 1)) else tuple(qs)) if qs else ("empty iterator", iter(()))):
            got = get_expectation_value_from_frequencies(marked, dict(counts))
            k += 1
            if abs(got - float(exp)) > TOL:
                return {"ok": False, "msg": "expectation from frequencies with the marked qubits %s given as a %s" % (qs, kind), "expected": str(exp), "observed": got, "sig": "counts:frequencies-container"}
        for s in set(shots):
            par = sum(s[q] for q in qs) % 2 == 0
            k += 1
            if bool(check_parity(s, qs)) != par or bool(check_parity("".join(map(str, s)), qs)) != par or \
                    bool(check_parity_of_vector(np.array([s]), qs)[0]) != par:
                return {"ok": False, "msg": "check_parity / check_parity_of_vector on %s, qubits %s" % (s, qs), "expected": par, "sig": "counts:parity"}
    # parity tallies for every ordered pair of subsets
    for a, b in itertools.product(S, repeat=2):
      for ca, cb in ((2.0, -0.5), (0.0, 0.0), (0, 1e-12)):      # parity tallies count shots - the coefficients (zero included) play no part in them
          op = PauliSum([PauliTerm({q: "Z" for q in a}, ca), PauliTerm({q: "Z" for q in b}, cb)])
          p = get_parities_from_measurements(list(shots), op)
          k += 1
          vals = np.asarray(p.values)
          exp_vals = [[sum(1 for s in shots if sum(s[q] for q in t) % 2 == 0), sum(1 for s in shots if sum(s[q] for q in t) % 2 == 1)] for t in (a, b)]
          if vals.tolist() != exp_vals:
              return {"ok": False, "msg": "parity tallies for terms on %s, %s" % (a, b), "expected": exp_vals, "observed": vals.tolist(), "sig": "parities:values"}
          C = np.asarray(p.correlations[0])
          T = (a, b)
          for i in range(2):
              for j in range(2):
                  ev = sum(1 for s in shots if (sum(s[q] for q in T[i]) + sum(s[q] for q in T[j])) % 2 == 0)
                  if [int(C[i, j, 0]), int(C[i, j, 1])] != [ev, N - ev]:
                      return {"ok": False, "msg": "pair parity tallies [%d,%d] for terms on %s, %s" % (i, j, a, b), "expected": [ev, N - ev], "observed": C[i, j].tolist(),
                              "sig": "parities:correlations"}
    # a bare PauliTerm (constant, single- and multi-qubit) is an Ising operator with one term
    for a in S:
        for c in (1.0, -0.5):
            op = PauliTerm({q: "Z" for q in a}, c)
            p = get_parities_from_measurements(list(shots), op)
            k += 1
            ev = sum(1 for s in shots if sum(s[q] for q in a) % 2 == 0)
            vals = np.asarray(p.values)
            C = np.asarray(p.correlations[0])
            if vals.tolist() != [[ev, N - ev]] or C.shape != (1, 1, 2) or [int(C[0, 0, 0]), int(C[0, 0, 1])] != [N, 0]:
                return {"ok": False, "msg": "parity tallies for the bare term %s" % op, "expected": [[[ev, N - ev]], [[[N, 0]]]], "observed": [vals.tolist(), C.tolist()], "sig": "parities:bare-term"}
    # the same shots with their bits held as numpy scalars (rows of a uint8 / int8 / bool / int64 array, as simulators and file readers hand them over): same tallies, same statistics
    if w >= 2:
        pool_ = [qs for qs in S if qs][:6]
        for dt in (np.uint8, np.int8, np.bool_, np.int64, np.uint16):
            typed = [tuple(np.array(s_, dtype=dt)) for s_ in shots]
            for a, b in itertools.product(pool_, repeat=2):
                op = PauliSum([PauliTerm({q: "Z" for q in a}, 2.0), PauliTerm({q: "Z" for q in b}, -0.5)])
                pt, pi_ = get_parities_from_measurements(list(typed), op), get_parities_from_measurements(list(shots), op)
                k += 1
                if np.asarray(pt.values).tolist() != np.asarray(pi_.values).tolist() or np.asarray(pt.correlations[0]).tolist() != np.asarray(pi_.correlations[0]).tolist():
                    return {"ok": False, "msg": "parity tallies of shots whose bits are %s scalars differ from those of the same shots as plain ints (terms on %s, %s)" % (np.dtype(dt).name, a, b),
                            "expected": str([np.asarray(pi_.values).tolist(), np.asarray(pi_.correlations[0]).tolist()]), "observed": str([np.asarray(pt.values).tolist(), np.asarray(pt.correlations[0]).tolist()]), "sig": "parities:entry-dtype"}
                et, ei = Measurements(list(typed)).get_expectation_values(op), m.get_expectation_values(op)
                if not np.allclose(np.asarray(et.values, dtype=complex), np.asarray(ei.values, dtype=complex), atol=1e-12, rtol=0) or not np.allclose(np.asarray(et.correlations[0], dtype=complex), np.asarray(ei.correlations[0], dtype=complex), atol=1e-12, rtol=0):
                    return {"ok": False, "msg": "expectation values of shots whose bits are %s scalars differ from those of the same shots as plain ints" % np.dtype(dt).name, "sig": "statistics:entry-dtype"}
    if [tuple(b) for b in m.bitstrings] != shots:
        return {"ok": False, "msg": "a query modified the measurements", "sig": "counts:mutated"}
    return {"ok": True, "nt": len(set(shots)) >= 2, "ops": k, "out": "N%d" % N}


def nonising_case(case):
    from orquestra.quantum.measurements import Measurements, get_parities_from_measurements
    from orquestra.quantum.operators import PauliTerm, PauliSum
    op = PauliSum([PauliTerm({0: "Z"}, 1.0), PauliTerm({1: case["p"]}, 0.5)]) if case["sum"] else PauliTerm({0: case["p"]}, 1.0)
    m = Measurements([(0, 1), (1, 1)])
    for f in (lambda: m.get_expectation_values(op), lambda: get_parities_from_measurements(m.bitstrings, op)):
        try:
            f()
        except TypeError:
            continue
        return {"ok": False, "msg": "non-Ising operator accepted", "sig": "nonising"}
    return {"ok": True, "nt": True, "ops": 2, "out": "TypeError"}


DICT_EVENTS = [["fq"], ["inc", "01", 2], ["inc", "11", 1], ["new", "10", 3], ["set", "01", 1], ["del", "11"]]


def dict_history_case(case):
    """{'hist': [...]}: get_expectation_value_from_frequencies on ONE histogram dict that the caller keeps updating in place"""
    from orquestra.quantum.measurements import get_expectation_value_from_frequencies
    hist = {"01": 1, "11": 2}
    k = 0

    def query(step):
        nonlocal k
        for qs in ([0], [1], [0, 1], []):
            k += 1
            N = sum(hist.values())
            exp = sum(F(v) * rs.eig(tuple(int(c) for c in b), qs) for b, v in hist.items()) / N
            got = get_expectation_value_from_frequencies(qs, hist)
            if abs(got - float(exp)) > TOL:
                return {"ok": False, "msg": "expectation from frequencies on qubits %s after %s is not that of the histogram passed (stale state?)" % (qs, step), "expected": str(exp), "observed": got,
                        "sig": "dict-history", "ops": k}
        return None
    for n, e in enumerate(case["hist"]):
        if e[0] == "fq":
            bad = query("event %d" % n)
            if bad:
                return bad
        elif e[0] in ("inc", "new"):
            hist[e[1]] = hist.get(e[1], 0) + e[2]
        elif e[0] == "set":
            hist[e[1]] = e[2]
        elif e[0] == "del":
            if e[1] in hist and len(hist) > 1:
                del hist[e[1]]
    bad = query("the last event")
    if bad:
        return bad
    return {"ok": True, "nt": any(e[0] == "fq" for e in case["hist"]) and any(e[0] != "fq" for e in case["hist"]), "ops": k, "out": "dict"}


EVENTS = [["q"], ["replace", [[1, 1], [0, 0], [0, 1]]], ["replace", [[0, 0], [0, 0], [0, 0]]], ["edit", 0, [1, 0]], ["edit", -1, [0, 0]],
          ["add_counts", {"11": 1}], ["add_counts", {"01": 2, "10": 1}], ["append", [1, 1]], ["pop"]]


def history_case(case):
    """{'hist': [event..]}: the statistics reported at every query are those of the bitstrings the object holds at that moment
    (model = plain list); events mutate the object through its public surface (attribute assignment, in-place edits, add_counts)."""
    from collections import Counter
    from orquestra.quantum.measurements import Measurements
    from orquestra.quantum.operators import PauliTerm, PauliSum
    model = [(0, 1), (1, 1), (1, 0)]
    m = Measurements(list(model))
    op = PauliSum([PauliTerm({0: "Z"}, 2.0), PauliTerm({0: "Z", 1: "Z"}, -0.5), PauliTerm("I0", 1.5)])
    desc = [[[2, 1], [0]], [[-1, 2], [0, 1]], [[3, 2], []]]
    nq = 0

    def query(step):
        nonlocal nq
        nq += 1
        N = len(model)
        ref = Counter("".join(map(str, s)) for s in model)
        if dict(m.get_counts()) != dict(ref):
            return "get_counts after %s" % step, dict(ref), dict(m.get_counts())
        if N == 0:
            return None
        d = m.get_distribution().distribution_dict
        if {k: round(v, 12) for k, v in d.items()} != {tuple(int(c) for c in k): round(v / N, 12) for k, v in ref.items()}:
            return "get_distribution after %s" % step, {k: v / N for k, v in ref.items()}, str(d)
        ev = m.get_expectation_values(op)
        cs = [F(c[0], c[1]) for c, _ in desc]
        means = [cs[i] * rs.mean([F(rs.eig(s, qs)) for s in model]) for i, (_, qs) in enumerate(desc)]
        if not all(close(a, float(b)) for a, b in zip(np.asarray(ev.values), means)):
            return "expectation values after %s" % step, [str(x) for x in means], str(np.asarray(ev.values).tolist())
        for i, (_, qi) in enumerate(desc):
            for j, (_, qj) in enumerate(desc):
                c = cs[i] * cs[j] * rs.mean([F(rs.eig(s, qi) * rs.eig(s, qj)) for s in model])
                if not close(ev.correlations[0][i, j], float(c)):
                    return "correlation [%d,%d] after %s" % (i, j, step), str(c), str(ev.correlations[0][i, j])
        return None

    for n, e in enumerate(case["hist"]):
        if e[0] == "q":
            bad = query("event %d" % n)
            if bad:
                return {"ok": False, "msg": "stale or wrong statistics: " + bad[0], "expected": bad[1], "observed": bad[2], "sig": "history:" + bad[0].split(" after")[0], "ops": nq}
        elif e[0] == "replace":
            model = [tuple(x) for x in e[1]][:len(model)] if len(model) <= 3 else [tuple(x) for x in e[1]] + model[3:]
            m.bitstrings = list(model)
        elif e[0] == "edit":
            if model:
                model[e[1]] = tuple(e[2]); m.bitstrings[e[1]] = tuple(e[2])
        elif e[0] == "add_counts":
            for k, v in e[1].items():
                model += [tuple(int(c) for c in k)] * v
            m.add_counts(dict(e[1]))
        elif e[0] == "append":
            model.append(tuple(e[1])); m.bitstrings.append(tuple(e[1]))
        elif e[0] == "pop":
            if model:
                model.pop(); m.bitstrings.pop()
    bad = query("the last event")
    if bad:
        return {"ok": False, "msg": "stale or wrong statistics: " + bad[0], "expected": bad[1], "observed": bad[2], "sig": "history:" + bad[0].split(" after")[0], "ops": nq}
    if [tuple(b) for b in m.bitstrings] != model:
        return {"ok": False, "msg": "object's bitstrings diverged from the model", "expected": str(model), "observed": str(m.bitstrings), "sig": "history:bitstrings"}
    return {"ok": True, "nt": sum(1 for e in case["hist"] if e[0] != "q") >= 1 and any(e[0] == "q" for e in case["hist"]), "ops": nq,
            "key": str(sorted(model)), "out": "N%d" % len(model)}


OPH_TERMS = [[[2, 1], [0]], [[-1, 2], [0, 1]], [[3, 2], []], [[1, 1], [1, 2]], [[5, 4], [0, 1, 2]]]
OPH_SHOTS = {"A": [(0, 1, 1), (1, 1, 0), (1, 0, 0), (1, 1, 0), (0, 0, 1)], "B": [(1, 1, 1), (0, 1, 0), (0, 1, 0)]}
OPH_EVENTS = [["ev", "A"], ["ev", "B"], ["par", "A"], ["par", "B"], ["freq", "A"], ["ising", None], ["simplify", None], ["str", None]]


def operator_history_case(case):
    """{'kind': 'sum'|'sum2'|'term', 'hist': [events]}: ONE operator object serves a history of evaluations (expectation values / parity tallies on two shot sets, frequencies
    through its terms' qubit sets, is_ising, simplify, str): every answer is the statistic of the operator AS BUILT on the shots asked for - the operator carries nothing over"""
    from orquestra.quantum.measurements import Measurements, get_expectation_value_from_frequencies, get_parities_from_measurements
    from orquestra.quantum.operators import PauliTerm, PauliSum
    desc = {"sum": OPH_TERMS[:4], "sum2": [OPH_TERMS[4], OPH_TERMS[1], OPH_TERMS[0]], "term": [OPH_TERMS[4]]}[case["kind"]]
    terms = [PauliTerm({q: "Z" for q in qs} if qs else "I0", c[0] / c[1]) for c, qs in desc]
    op = PauliSum(terms) if case["kind"] != "term" else terms[0]
    k = 0
    for e in case["hist"]:
        k += 1
        if e[0] in ("ev", "par", "freq"):
            shots = OPH_SHOTS[e[1]]
            N = len(shots)
        if e[0] == "ev":
            ev = Measurements(list(shots)).get_expectation_values(op)
            cs = [F(c[0], c[1]) for c, _ in desc]
            means = [cs[i] * rs.mean([F(rs.eig(s_, qs)) for s_ in shots]) for i, (_, qs) in enumerate(desc)]
            if len(np.asarray(ev.values)) != len(means) or not all(close(a, float(b)) for a, b in zip(np.asarray(ev.values), means)):
                return {"ok": False, "msg": "expectation values on shot set %s at step %d of %s" % (e[1], k, case["hist"]), "expected": [str(x) for x in means], "observed": str(np.asarray(ev.values).tolist()),
                        "sig": "ophist:values", "ops": k}
            for i, (_, qi) in enumerate(desc):
                for j, (_, qj) in enumerate(desc):
                    c = cs[i] * cs[j] * rs.mean([F(rs.eig(s_, qi) * rs.eig(s_, qj)) for s_ in shots])
                    if not close(ev.correlations[0][i, j], float(c)):
                        return {"ok": False, "msg": "correlation [%d,%d] on shot set %s at step %d of %s" % (i, j, e[1], k, case["hist"]), "expected": str(c), "observed": str(ev.correlations[0][i, j]),
                                "sig": "ophist:correlations", "ops": k}
        elif e[0] == "par":
            pr = get_parities_from_measurements(list(shots), op)
            exp_vals = [[sum(1 for s_ in shots if rs.eig(s_, qs) == 1), sum(1 for s_ in shots if rs.eig(s_, qs) == -1)] for _, qs in desc]
            if np.asarray(pr.values).tolist() != exp_vals:
                return {"ok": False, "msg": "parity tallies on shot set %s at step %d of %s" % (e[1], k, case["hist"]), "expected": exp_vals, "observed": np.asarray(pr.values).tolist(), "sig": "ophist:parities", "ops": k}
            C = np.asarray(pr.correlations[0])
            for i, (_, qi) in enumerate(desc):
                for j, (_, qj) in enumerate(desc):
                    evn = sum(1 for s_ in shots if rs.eig(s_, qi) * rs.eig(s_, qj) == 1)
                    if [int(C[i, j, 0]), int(C[i, j, 1])] != [evn, N - evn]:
                        return {"ok": False, "msg": "pair parity tallies [%d,%d] on shot set %s at step %d of %s" % (i, j, e[1], k, case["hist"]), "expected": [evn, N - evn], "observed": C[i, j].tolist(),
                                "sig": "ophist:pair-parities", "ops": k}
        elif e[0] == "freq":
            counts = Measurements(list(shots)).get_counts()
            for t_, (_, qs) in zip(terms, desc):
                got = get_expectation_value_from_frequencies(t_.qubits, dict(counts))
                exp = rs.mean([F(rs.eig(s_, qs)) for s_ in shots])
                if abs(got - float(exp)) > TOL:
                    return {"ok": False, "msg": "expectation from frequencies on term.qubits = %s at step %d of %s" % (sorted(t_.qubits), k, case["hist"]), "expected": str(exp), "observed": got, "sig": "ophist:frequencies", "ops": k}
        elif e[0] == "ising":
            if not op.is_ising:
                return {"ok": False, "msg": "is_ising turned False", "sig": "ophist:is_ising", "ops": k}
        elif e[0] == "simplify":
            if case["kind"] != "term":
                op.simplify()
        elif e[0] == "str":
            str(op), repr(op)
        for t_, (_, qs) in zip(terms, desc):
            if set(t_.qubits) != set(qs):
                return {"ok": False, "msg": "after step %d of %s a term of the operator reports the qubits %s, it was built on %s" % (k, case["hist"], sorted(t_.qubits), qs), "sig": "ophist:qubits", "ops": k}
    return {"ok": True, "nt": len(case["hist"]) >= 2, "ops": k, "out": case["kind"]}


def wide_shots_case(case):
    """{'w': width, 'ones': [[positions set to 1] per distinct outcome], 'mult': [multiplicity]}: registers wider than a machine word: counts, distribution,
    expectation values of Z_q for the highest qubits, parities"""
    from collections import Counter
    from orquestra.quantum.measurements import Measurements, get_expectation_value_from_frequencies
    from orquestra.quantum.operators import PauliTerm, PauliSum
    w = case["w"]
    outcomes = [tuple(1 if q in ones else 0 for q in range(w)) for ones in case["ones"]]
    shots = [o for o, mlt in zip(outcomes, case["mult"]) for _ in range(mlt)]
    N = len(shots)
    m = Measurements(list(shots))
    ref = Counter("".join(map(str, s)) for s in shots)
    counts = m.get_counts()
    if dict(counts) != dict(ref):
        return {"ok": False, "msg": "get_counts on %d-bit shots is not the histogram of the shots (%d distinct outcomes, %d keys returned)" % (w, len(ref), len(counts)), "sig": "wide:counts"}
    if Counter(map(tuple, Measurements.from_counts(dict(counts)).bitstrings)) != Counter(shots):
        return {"ok": False, "msg": "from_counts(get_counts()) on %d-bit shots" % w, "sig": "wide:roundtrip"}
    d = m.get_distribution().distribution_dict
    if {key: round(v * N) for key, v in d.items()} != dict(Counter(shots)):
        return {"ok": False, "msg": "empirical distribution of %d-bit shots" % w, "sig": "wide:distribution"}
    k = 3
    for qs in ([0], [w - 1], [w - 2], [63] if w > 63 else [w // 2], [64] if w > 64 else [1], [0, w - 1], [w - 2, w - 1], list(range(w))):
        if any(not 0 <= q < w for q in qs) or len(set(qs)) != len(qs):
            continue
        exp = sum(F(rs.eig(o, qs)) * mlt for o, mlt in zip(outcomes, case["mult"])) / N      # = the sample mean over all shots, outcome by outcome
        k += 2
        if abs(get_expectation_value_from_frequencies(qs, dict(counts)) - float(exp)) > TOL:
            return {"ok": False, "msg": "expectation from frequencies on qubits %s of %d" % (qs, w), "sig": "wide:frequencies"}
        ev = m.get_expectation_values(PauliSum([PauliTerm({q: "Z" for q in qs}, 2.0), PauliTerm("I0", 0.5)]))
        if abs(ev.values[0] - 2.0 * float(exp)) > TOL or abs(ev.values[1] - 0.5) > TOL:
            return {"ok": False, "msg": "get_expectation_values for Z on qubits %s of %d" % (qs, w), "expected": 2.0 * float(exp), "observed": str(ev.values), "sig": "wide:values"}
    return {"ok": True, "nt": len(set(shots)) >= 2, "ops": k, "out": "w%d" % w}


FUNCS = {"operator_histories": operator_history_case, "wide_shots": wide_shots_case, "dict_histories": dict_history_case, "histories": history_case, "statistics": stats_case, "counts": counts_case, "nonising": nonising_case}


def multisets(w, Nmax):
    B = [list(b) for b in itertools.product((0, 1), repeat=w)]
    out = []
    for N in range(1, Nmax + 1):
        for combo in itertools.combinations_with_replacement(range(len(B)), N):
            shots = [B[i] for i in combo]
            out.append(shots)
            if len(set(combo)) >= 2:
                out.append(shots[::-1])
    return out


def run(run):
    thorough = run.tier == "thorough"
    plan = [(1, 5 if thorough else 4, 3), (2, 5 if thorough else 4, 3), (3, 5 if thorough else 3, 3 if thorough else 2)]
    if thorough:
        plan.append((4, 3, 2))
    cases, ccases = [], []
    for w, Nmax, T in plan:
        nops = len(operators(w, T))
        B = 80
        for shots in multisets(w, Nmax):
            for b0 in range(0, nops, B):
                cases.append({"shots": shots, "w": w, "T": T, "block": [b0, min(nops, b0 + B)]})
            ccases.append({"shots": shots, "w": w})
    # wider shots (5-7 bits; a fixed asymmetric shot list): operators over EVERY subset of <= 4 qubits - unevenly spaced triples / quadruples included - singly (T = 1 through the full
    # operator alphabet) and in pairs drawn from a 14-subset pool; counts / frequencies / parity tallies on every subset of width 5 and 6
    for w in (5, 6, 7):
        sh = []
        for j in range(9 if w < 7 else 7):
            b = [int((j * (q + 3) + (q * q) // 2 + (j >> (q % 3))) % 3 == 0) for q in range(w)]
            sh += [b] * (1 + j % 3)
        nops = len(operators(w, 1))
        for b0 in range(0, nops, 60):
            cases.append({"shots": sh, "w": w, "T": 1, "block": [b0, min(nops, b0 + 60)]})
        if w <= 6:
            ccases.append({"shots": sh[:7], "w": w})
    secs = [Section("statistics", cases, stats_case, desc="get_expectation_values: values, correlations, covariances (Bessel on/off) vs Fractions"),
            Section("counts", ccases, counts_case, desc="counts/from_counts/add_counts/distribution/frequencies/parity tallies on every multiset"),
            Section("nonising", [{"p": p, "sum": s} for p in "XY" for s in (0, 1)], nonising_case, desc="non-Ising operators are refused with TypeError")]
    ws = []
    for w in ((8, 31, 32, 33, 63, 64, 65, 70, 128, 130) if thorough else (33, 63, 64, 65, 70, 130)):
        ws += [{"w": w, "ones": [[w - 1], [w - 2], [0], [0, w - 1]], "mult": [1, 2, 3, 1]}, {"w": w, "ones": [[], [w - 1]], "mult": [2, 1]}, {"w": w, "ones": [[1, w - 1], [1], [w - 1], [1, w - 2]], "mult": [1, 1, 2, 1]},
               {"w": w, "ones": [list(range(w)), list(range(w - 1)), list(range(1, w))], "mult": [1, 1, 1]}]
    # many shots: multiplicities beyond 255, 65 535 and 10^5 (a counter, an index or a vectorised path of limited width), with single rare shots among them
    for w, ones, mult in ((2, [[0], [1], [0, 1], []], [256, 300, 1, 65536]), (3, [[0, 2], [1], []], [70000, 65535, 1]), (5, [[4], [0, 4], [1, 2, 3]], [100001, 2, 255]), (1, [[0], []], [65537, 65536]),
                          (4, [[q_] for q_ in range(4)] + [[]], [257, 258, 259, 260, 131072])):
        ws.append({"w": w, "ones": ones, "mult": mult})
    secs.append(Section("wide_shots", ws, wide_shots_case, desc="bitstrings of 33..130 bits (wider than a machine word): outcomes that differ only in the highest positions; sample sets of 66 000 - 232 000 shots with multiplicities around 2^8, 2^16, 10^5"))
    D = 4 if thorough else 3
    hs = [{"hist": [EVENTS[i] for i in combo]} for d in range(0, D + 1) for combo in itertools.product(range(len(EVENTS)), repeat=d)]
    secs.append(Section("histories", hs, history_case, desc="every history of <=%d events (query / replace / in-place edit / add_counts / append / pop) on one Measurements object; "
                        "every query must report the statistics of the current shots" % D))
    dh = [{"hist": [DICT_EVENTS[i] for i in combo]} for d in range(0, D + 1) for combo in itertools.product(range(len(DICT_EVENTS)), repeat=d)]
    secs.append(Section("dict_histories", dh, dict_history_case, desc="every history of <=%d in-place updates / queries on one histogram dict passed to get_expectation_value_from_frequencies" % D))
    oh = [{"kind": kd, "hist": [OPH_EVENTS[i] for i in combo]} for kd in ("sum", "sum2", "term") for d in (1, 2, 3) for combo in itertools.product(range(len(OPH_EVENTS)), repeat=d)
          if d < 3 or thorough or (combo[0] in (2, 3, 4, 0) and combo[2] in (0, 1, 2, 3))]
    secs.append(Section("operator_histories", oh, operator_history_case, desc="ONE operator object through every history of <= 3 evaluations (expectation values / parity tallies on two shot sets, frequencies via "
                        "term.qubits, is_ising, simplify, str): every answer belongs to the operator as built and the shots asked for"))
    run.run_sections(secs)
