"""C12 - a wavefunction object is normalised after every operation on it (E2: BFS over assignment/binding histories)."""
import io
import itertools
import os
import tempfile

import numpy as np
from mc.ref.linalg import allclose as _close
import sympy

from mc.engine import Section, jdump
from mc.ref import linalg as L

RULE = ("BFS over histories: roots = numeric (flat and column-vector), symbolic and mixed amplitude vectors on 1-2 qubits; events = wf[i]=v for every index (and -1), slice "
        "assignments, wf.bind(m) for maps over {a,b}, flip_wavefunction; state = (how the amplitudes are held: type/shape/dtype of .amplitudes, canonical amplitude tuple "
        "with numbers rounded at 1e-12 and expressions by srepr) - the representation is part of the state because element access and roll-back depend on it; every transition is compared with a plain-list reference model and the invariant is "
        "evaluated in every state. non-trivial state = reached by at least one accepted or rejected mutation; plus constructor rejections, Dicke states "
        "for all n<=N,k<=n, bit-reversal on index vectors, save/load on reachable numeric states")
RULE += " Round 6-7: nan / inf values; the free symbols the object reports are part of every compared state; block assignment through a 2-D key with a sympy Matrix; wavefunctions created from real float / int data under complex assignments."
RULE += " Also: runs of 12/40 small same-direction assignments (drift bounded by the object's own tolerance), probabilities of still-symbolic states at a complex assignment, symbols with assumptions."
ASSUMPTIONS = ["alphabet values keep |sum|a|^2 - 1| either < 1e-9 or > 1e-2: the library's own np.isclose tolerance edge is never probed",
               "amplitudes are observed through wf[i], len(wf), wf.amplitudes, free_symbols (public surface)"]
BOUNDS = {"quick": {"history_depth": 3, "dicke_n": 8, "flip_n": 6}, "thorough": {"history_depth": 5, "dicke_n": 10, "flip_n": 8}}
S2 = 1 / np.sqrt(2)
SYM = {n: sympy.Symbol(n) for n in "abc"}
SYM_REAL = {"a": sympy.Symbol("a", real=True), "b": sympy.Symbol("b", positive=True), "c": sympy.Symbol("c", real=True)}

ROOTS = [["n", [1, 0]], ["n", [0, 0, 0, 1]], ["n", [S2, S2]], ["n", [S2, [0, S2]]], ["n", [0.6, 0.8]], ["n", [0.5, 0.5, 0.5, 0.5]], ["n", [0.6, 0, 0, [0, 0.8]]], ["n", [0.5, [0, 0.5], [0, -0.5], 0.5]],
         ["s", ["a", "b"]], ["s", ["a", 0.6]], ["s", ["a", 0.5, "b", 0.5]],
         # numeric column vectors (shape (2^n, 1)): what a total bind returns, and what a user may pass
         ["ncol", [0.6, 0.8]], ["ncol", [0.5, [0, 0.5], [0, -0.5], 0.5]],
         # symbolic roots over symbols with assumptions (real / positive), and a mixed root with an imaginary numeric entry
         ["sr", ["a", "b"]], ["sr", ["a", 0.6]], ["s", ["a", [0, 0.5], "b", 0.5]]]
VALUES = [0, 1, 0.6, 0.8, 0.5, S2, [0, S2], [0, -S2], -0.6, "a", "c", "nan", "inf"]     # nan / inf: never an amplitude - must be refused, and the refusal must roll back
BIND_VALUES = [0.5, 0.1, 0.9, 0.6, "c"]


_ACTIVE = [SYM]


def val(v):
    if isinstance(v, list):
        return complex(v[0], v[1])
    if v in ("nan", "inf"):
        return float(v)
    if isinstance(v, str):
        return _ACTIVE[0][v]
    return v


def mk_root(root):
    from orquestra.quantum.wavefunction import Wavefunction
    kind, vec = root
    _ACTIVE[0] = SYM_REAL if kind == "sr" else SYM     # "sr": the same vectors over symbols that carry assumptions
    vals = [val(v) for v in vec]
    if kind == "n":
        return Wavefunction(np.array(vals, dtype=complex)), list(map(complex, vals))
    if kind == "ncol":
        return Wavefunction(np.array(vals, dtype=complex).reshape(-1, 1)), list(map(complex, vals))
    if kind == "nf":      # a REAL float array: the object must still hold complex amplitudes afterwards
        return Wavefunction(np.array(vals, dtype=float)), list(map(complex, vals))
    if kind == "nl":      # a plain list of Python floats / ints
        return Wavefunction([float(v) if isinstance(v, float) else v for v in vals]), list(map(complex, vals))
    if kind == "ni":      # an integer array
        return Wavefunction(np.array(vals, dtype=int)), list(map(complex, vals))
    return Wavefunction(sympy.Matrix(vals)), [v if isinstance(v, sympy.Basic) else complex(v) for v in vals]


def entry(x):
    """canonical form of one amplitude as read through wf[i]"""
    if isinstance(x, np.ndarray):
        x = x.reshape(-1)
        if len(x) != 1:
            return "array" + str(x.shape)
        x = x[0]
    if isinstance(x, sympy.Basic):
        if x.free_symbols:
            return "sym:" + sympy.srepr(x)
        x = complex(x)
    x = complex(x)
    if x != x or abs(x) == float("inf"):
        return "non-finite:" + str(x)
    return [round(x.real, 12) + 0.0, round(x.imag, 12) + 0.0]


def snapshot(wf):
    """entries as read through wf[i], plus the free symbols the object reports (a cached report must follow the entries, also after a rejected write)"""
    ent = [entry(wf[i]) for i in range(len(wf))]
    fs = sorted(str(s_) for s_ in wf.free_symbols)
    want = sorted({str(x) for i in range(len(wf)) for x in (wf[i].free_symbols if isinstance(wf[i], sympy.Basic) else ())})
    return ent if fs == want else ent + ["free_symbols reported: %s, entries depend on: %s" % (fs, want)]


def model_snapshot(vec):
    return [entry(v) for v in vec]


def is_num(v):
    return not (isinstance(v, sympy.Basic) and v.free_symbols)


def model_valid(vec):
    nums = [complex(v) for v in vec if is_num(v)]
    tot = sum(abs(x) ** 2 for x in nums)
    if tot != tot or tot == float("inf"):
        return False        # a NaN / infinite entry is not an amplitude
    if len(nums) == len(vec):
        return abs(tot - 1) < 1e-6
    return tot <= 1 + 1e-6


def invariant(wf):
    """the object's own state satisfies the normalisation rule"""
    snap = snapshot(wf)
    if any(isinstance(e, str) and e.startswith("non-finite") for e in snap):
        return False, "a NaN / infinite amplitude is stored: %s" % snap
    nums = [complex(e[0], e[1]) for e in snap if isinstance(e, list)]
    tot = sum(abs(x) ** 2 for x in nums)
    if bin(len(snap)).count("1") != 1:
        return False, "length %d is not a power of two" % len(snap)
    if len(nums) == len(snap):
        if abs(tot - 1) > 1e-6:
            return False, "numeric wavefunction with total probability %.6f" % tot
    elif tot > 1 + 1e-6:
        return False, "numeric entries already carry probability %.6f" % tot
    return True, ""


def events_for(case):
    n = 2 if case["root"][1].__len__() == 2 else 4
    evs = [["set", i, v] for i in list(range(n)) + [-1] for v in VALUES]
    evs += [["setslice", [0, 2, 1], [0.8, 0.6]], ["setslice", [0, 2, 1], [1, 1]]]
    if n == 4:
        evs += [["setslice", [0, None, 2], [S2, S2]], ["setslice", [0, None, 2], [0.6, 0.6]]]
    evs.append(["flip"])
    if case["root"][0] in ("s", "sr"):
        evs += [["setblock", [0, 2], ["c", 0.99]], ["setblock", [0, 2], ["c", 0.1]], ["setblock", [0, 2], [0.6, 0.8]]] + ([["setblock", [1, 3], [0.99, "c"]]] if n == 4 else [])
        for va in BIND_VALUES + [None]:
            for vb in BIND_VALUES[:3] + [None]:
                m = {}
                if va is not None:
                    m["a"] = va
                if vb is not None:
                    m["b"] = vb
                evs.append(["bind", m])
    return evs


def step(case):
    """replay case['hist'] on a fresh object; judge every transition against the model; key = canonical state"""
    wf, model = mk_root(case["root"])
    ok, why = invariant(wf)
    if not ok:
        return {"ok": False, "msg": "root violates the invariant: " + why, "sig": "root", "key": None}
    n_acc = n_rej = 0

    def observe(w, when, final=False):
        """every state along the history is QUERIED (so state cached by a query cannot go stale unnoticed)"""
        sn = snapshot(w)
        if final and not all(isinstance(e, list) for e in sn):
            # still symbolic (checked in the state a history ends in; every intermediate state is the end of a shorter history of the search): probabilities are the squared MAGNITUDES of the entries - checked at a complex assignment of the symbols
            cvals = {"a": 0.3 + 0.4j, "b": -0.5 + 0.2j, "c": 0.1 - 0.7j}
            asg = {s_: (abs(cvals.get(s_.name, 0.6)) if (s_.is_real or s_.is_positive) else cvals.get(s_.name, 0.3 + 0.4j)) for s_ in w.free_symbols}
            try:
                probs = list(np.asarray(w.get_probabilities(), dtype=object).reshape(-1))
            except Exception as e:  # noqa: BLE001
                return {"ok": False, "msg": "get_probabilities %s raised %s on a symbolic wavefunction" % (when, type(e).__name__), "sig": "probabilities:symbolic-exception", "key": None}
            for i in range(len(sn)):
                amp = complex(sympy.sympify(w[i] if not isinstance(w[i], np.ndarray) else w[i].reshape(-1)[0]).subs(asg))
                got = complex(sympy.sympify(probs[i]).subs(asg))
                if abs(got - abs(amp) ** 2) > 1e-9:
                    return {"ok": False, "msg": "get_probabilities %s: entry %d is %s, not the squared magnitude of the amplitude %s" % (when, i, probs[i], w[i]), "expected": abs(amp) ** 2,
                            "observed": str(got), "sig": "probabilities:symbolic", "key": None}
        if all(isinstance(e, list) for e in sn):
            amps = np.array([complex(e[0], e[1]) for e in sn])
            p = np.asarray(w.get_probabilities(), dtype=float).reshape(-1)
            if p.shape != amps.shape or not _close(p, np.abs(amps) ** 2, atol=1e-9):
                return {"ok": False, "msg": "get_probabilities %s is not |amplitude|^2 of the current amplitudes" % when, "expected": str((np.abs(amps) ** 2).tolist()), "observed": str(p.tolist()),
                        "sig": "probabilities:stale", "key": None}
        return None
    bad = observe(wf, "on the fresh object")
    if bad:
        return bad
    for ev in case["hist"]:
        before = snapshot(wf)
        if ev[0] in ("set", "setslice", "setblock"):
            new = list(model)
            if ev[0] == "setblock":
                # a block assignment through a 2-D key with a sympy Matrix value (what a sympy-backed store accepts): wf[a:b, 0] = Matrix([...])
                a_, b_ = ev[1]
                vals = [val(v) for v in ev[2]]
                new[a_:b_] = vals
                def act():
                    wf[a_:b_, 0] = sympy.Matrix(vals)
            elif ev[0] == "set":
                new[ev[1]] = val(ev[2])
                def act():
                    wf[ev[1]] = val(ev[2])
            else:
                sl = slice(*ev[1])
                vals = [val(v) for v in ev[2]]
                new[sl] = vals
                def act():
                    wf[sl] = vals if not isinstance(wf[0], np.ndarray) or True else vals
            valid = model_valid(new)
            try:
                act()
                raised = None
            except Exception as e:  # noqa: BLE001
                raised = e
            after = snapshot(wf)
            if raised is not None:
                n_rej += 1
                if after != before:
                    return {"ok": False, "msg": "a rejected assignment %s left the object modified" % (ev,), "expected": str(before), "observed": str(after),
                            "sig": "setitem:not-restored", "key": None}
            else:
                if not valid:
                    return {"ok": False, "msg": "assignment %s breaks normalisation but was accepted" % (ev,), "expected": "an error; object stays " + str(before),
                            "observed": str(after), "sig": "setitem:accepted-invalid", "key": None}
                n_acc += 1
                if after != model_snapshot(new):
                    return {"ok": False, "msg": "accepted assignment %s did not write the value" % (ev,), "expected": str(model_snapshot(new)), "observed": str(after),
                            "sig": "setitem:wrong-write", "key": None}
                model = new
        elif ev[0] == "bind":
            m = {_ACTIVE[0][k]: val(v) for k, v in ev[1].items()}
            new = [v.subs(m, simultaneous=True) if isinstance(v, sympy.Basic) else v for v in model]
            new = [complex(v) if (isinstance(v, sympy.Basic) and not v.free_symbols) else v for v in new]
            valid = model_valid(new)
            try:
                res = wf.bind(m)
                raised = None
            except Exception as e:  # noqa: BLE001
                raised = e
            if snapshot(wf) != before:
                return {"ok": False, "msg": "bind(%s) modified its receiver" % (ev[1],), "expected": str(before), "observed": str(snapshot(wf)), "sig": "bind:receiver", "key": None}
            if raised is not None:
                n_rej += 1
            else:
                if not valid:
                    return {"ok": False, "msg": "bind(%s) yields an un-normalised wavefunction but was accepted" % (ev[1],), "observed": str(snapshot(res)),
                            "sig": "bind:accepted-invalid", "key": None}
                n_acc += 1
                if snapshot(res) != model_snapshot(new):
                    return {"ok": False, "msg": "bind(%s) result differs from substitution" % (ev[1],), "expected": str(model_snapshot(new)), "observed": str(snapshot(res)),
                            "sig": "bind:value", "key": None}
                wf, model = res, new
        elif ev[0] == "flip":
            from orquestra.quantum.wavefunction import flip_wavefunction
            nq = int(np.log2(len(model)))
            new = [model[int(format(i, "0%db" % nq)[::-1], 2)] if nq else model[i] for i in range(len(model))]
            res = flip_wavefunction(wf)
            if snapshot(wf) != before:
                return {"ok": False, "msg": "flip_wavefunction modified its argument", "sig": "flip:receiver", "key": None}
            if snapshot(res) != model_snapshot(new):
                return {"ok": False, "msg": "flip_wavefunction is not the bit-reversal permutation of the amplitudes", "expected": str(model_snapshot(new)), "observed": str(snapshot(res)),
                        "sig": "flip:value", "key": None}
            want_free = set().union(*[v.free_symbols for v in new if isinstance(v, sympy.Basic)] or [set()])
            if set(res.free_symbols) != want_free:
                return {"ok": False, "msg": "the flipped wavefunction reports free symbols %s, its amplitudes depend on %s" % (res.free_symbols, want_free), "sig": "flip:free-symbols", "key": None}
            n_acc += 1
            wf, model = res, new
        ok, why = invariant(wf)
        if not ok:
            return {"ok": False, "msg": "after %s the object violates the invariant: %s" % (ev, why), "observed": str(snapshot(wf)), "sig": "invariant", "key": None}
        bad = observe(wf, "after %s" % (ev,))
        if bad:
            return bad
    # state-level observations
    bad = observe(wf, "in the final state", final=True)
    if bad:
        return bad
    snap = snapshot(wf)
    if all(isinstance(e, list) for e in snap):
        amps = np.array([complex(e[0], e[1]) for e in snap])
        p = np.asarray(wf.get_probabilities(), dtype=float).reshape(-1)
        if not _close(p, np.abs(amps) ** 2, atol=1e-9) or abs(p.sum() - 1) > 1e-6:
            return {"ok": False, "msg": "get_probabilities is not |a|^2 summing to 1", "expected": str((np.abs(amps) ** 2).tolist()), "observed": str(p.tolist()), "sig": "probabilities", "key": None}
        op = wf.get_outcome_probs()
        nq = int(np.log2(len(snap)))
        for i in range(len(snap)):
            key = format(i, "0%db" % nq)[::-1]
            v = op.get(key)
            if v is None or abs(float(np.asarray(v).reshape(-1)[0]) - abs(amps[i]) ** 2) > 1e-9:
                return {"ok": False, "msg": "get_outcome_probs[%s] is not the probability of basis state %d" % (key, i), "observed": str(op), "sig": "outcome-probs", "key": None}
        if abs(np.abs(np.asarray(wf.amplitudes, dtype=complex).reshape(-1) - amps).max()) > 1e-9:
            return {"ok": False, "msg": ".amplitudes differs from the entries", "sig": "amplitudes", "key": None}
    # the canonical state includes how the amplitudes are held (flat array / column vector / symbolic matrix): element access and roll-back take
    # different paths for them, so states that differ only in representation do NOT have the same futures and must not be merged
    amp = wf.amplitudes
    rep = [type(amp).__name__, list(np.shape(amp)), str(getattr(amp, "dtype", ""))]
    return {"ok": True, "key": jdump([rep, snap]), "nt": bool(case["hist"]), "ops": max(1, len(case["hist"])),
            "out": "%s:acc%d:rej%d" % (case["root"][0], min(n_acc, 3), min(n_rej, 3))}


def ctor_case(case):
    """constructor: lengths that are not powers of two, wrong norms, mixed vectors whose numeric part exceeds 1 => error"""
    from orquestra.quantum.wavefunction import Wavefunction
    vec = [val(v) for v in case["vec"]]
    arg = np.array(vec, dtype=complex) if case["kind"] == "n" else (sympy.Matrix(vec) if case["kind"] == "s" else list(vec))
    try:
        wf = Wavefunction(arg)
    except Exception as e:  # noqa: BLE001
        return {"ok": not case["valid"] or False, "nt": True, "out": "rejected", "msg": "valid vector rejected: %s" % e, "sig": "ctor:rejected-valid"} if case["valid"] else \
            {"ok": True, "nt": True, "out": "rejected"}
    if not case["valid"]:
        return {"ok": False, "msg": "constructor accepted an invalid amplitude vector", "observed": str(snapshot(wf)), "sig": "ctor:accepted-invalid"}
    ok, why = invariant(wf)
    return {"ok": ok, "nt": True, "out": "accepted", "msg": why, "sig": "ctor:invariant"}


def dicke_case(case):
    from math import comb
    from orquestra.quantum.wavefunction import Wavefunction
    n, k = case["n"], case["k"]
    valid = isinstance(k, int) and 0 <= k <= n
    try:
        wf = Wavefunction.dicke_state(n, k)
    except ValueError:
        return {"ok": not valid, "nt": True, "out": "ValueError", "msg": "valid Dicke state refused", "sig": "dicke:refused"}
    if not valid:
        return {"ok": False, "msg": "dicke_state(%s, %s) accepted" % (n, k), "sig": "dicke:accepted-invalid"}
    p = np.asarray(wf.get_probabilities(), dtype=float).reshape(-1)
    exp = np.array([1.0 / comb(n, k) if bin(i).count("1") == k else 0.0 for i in range(2 ** n)])
    ok = len(p) == 2 ** n and _close(p, exp, atol=1e-12)
    r = {"ok": bool(ok), "nt": 0 < k < n, "out": "dicke", "ops": 2}
    if ok and k > 0:
        # history: an accepted mutation of the returned object must not leak into the next call with the same arguments
        z = np.zeros(2 ** n, dtype=complex)
        z[0] = 1
        try:
            wf[:] = z
        except Exception:  # noqa: BLE001
            pass
        p2 = np.asarray(Wavefunction.dicke_state(n, k).get_probabilities(), dtype=float).reshape(-1)
        if not _close(p2, exp, atol=1e-12):
            return {"ok": False, "msg": "dicke_state(%d,%d) called again after mutating the first result is no longer the Dicke state" % (n, k),
                    "observed": "support %d" % int((p2 > 1e-15).sum()), "sig": "dicke:shared-state"}
    if not ok:
        r.update(msg="dicke_state(%d,%d) is not the equal-weight state on Hamming weight %d" % (n, k, k), expected="support %d" % comb(n, k),
                 observed="support %d, probs %s" % (int((p > 1e-15).sum()), sorted(set(np.round(p, 6).tolist()))), sig="dicke:state")
    return r


def flip_case(case):
    from orquestra.quantum.wavefunction import flip_amplitudes, flip_wavefunction, Wavefunction
    n = case["n"]
    v = np.arange(2 ** n)
    out = np.asarray(flip_amplitudes(v))
    exp = np.zeros_like(v)
    for i in range(2 ** n):
        exp[L.bitrev(i, n)] = i
    if out.tolist() != exp.tolist():
        return {"ok": False, "msg": "flip_amplitudes is not the bit-reversal permutation on %d qubits" % n, "expected": str(exp.tolist())[:200], "observed": str(out.tolist())[:200], "sig": "flip:perm"}
    if np.asarray(flip_amplitudes(out)).tolist() != v.tolist():
        return {"ok": False, "msg": "flip_amplitudes is not an involution", "sig": "flip:involution"}
    if np.asarray(flip_amplitudes(list(v))).tolist() != exp.tolist():
        return {"ok": False, "msg": "flip_amplitudes on a list", "sig": "flip:list"}
    a = np.array([np.sin(1 + i) + 1j * np.cos(2 + 3 * i) for i in range(2 ** n)])
    a = a / np.linalg.norm(a)
    w = Wavefunction(a.copy())
    fw = flip_wavefunction(w)
    got = np.asarray(fw.amplitudes).reshape(-1)
    if not _close(got, np.array([a[L.bitrev(i, n)] for i in range(2 ** n)])) or not _close(np.asarray(w.amplitudes).reshape(-1), a):
        return {"ok": False, "msg": "flip_wavefunction wrong / modified its argument", "sig": "flip:wavefunction"}
    if not _close(np.asarray(flip_wavefunction(fw).amplitudes).reshape(-1), a):
        return {"ok": False, "msg": "flip_wavefunction twice is not the identity", "sig": "flip:wf-involution"}
    return {"ok": True, "nt": n >= 2, "ops": 5, "out": "n%d" % n}


def flip_history_case(case):
    """{'sizes': [...]}: flips of registers of different widths, in the given (not ascending) order and repeated, in one process: each is the bit reversal of its own width"""
    from orquestra.quantum.wavefunction import flip_amplitudes, flip_wavefunction, Wavefunction
    k = 0
    for n in case["sizes"]:
        v = np.arange(2 ** n)
        exp = np.zeros_like(v)
        for i in range(2 ** n):
            exp[L.bitrev(i, n)] = i
        for arg in (v, list(v), v.astype(float) + 0.5j):
            try:
                out = np.asarray(flip_amplitudes(arg))
            except Exception as e:  # noqa: BLE001
                return {"ok": False, "msg": "flip_amplitudes on %d qubits after flips of widths %s raised %s: %s" % (n, case["sizes"][:k], type(e).__name__, e), "sig": "flip-history:exception", "ops": k}
            want = exp if arg is not v.astype(float) and not np.iscomplexobj(arg) else exp + 0.5j
            if out.shape != exp.shape or not _close(out, want):
                return {"ok": False, "msg": "flip_amplitudes on %d qubits (after flips of widths %s) is not the bit reversal" % (n, case["sizes"][:k]), "sig": "flip-history:perm", "ops": k}
        a = np.zeros(2 ** n, dtype=complex)
        a[1] = 0.6
        a[2 ** n - 2 if n > 1 else 0] += 0.8j if n > 1 else 0
        if n == 1:
            a = np.array([0.6, 0.8j])
        got = np.asarray(flip_wavefunction(Wavefunction(a.copy())).amplitudes).reshape(-1)
        if not _close(got, np.array([a[L.bitrev(i, n)] for i in range(2 ** n)])):
            return {"ok": False, "msg": "flip_wavefunction on %d qubits (after widths %s)" % (n, case["sizes"][:k]), "sig": "flip-history:wavefunction", "ops": k}
        k += 1
    return {"ok": True, "nt": True, "ops": k, "out": "hist%d" % len(case["sizes"])}


def wide_case(case):
    """{'n': 9..12}: a wavefunction on a register whose basis index needs more than one byte: constructor, probabilities, outcome keys, accepted and rejected
    assignments (single and slice) with roll-back, save/load"""
    from orquestra.quantum.wavefunction import Wavefunction
    n = case["n"]
    N = 2 ** n
    a = np.zeros(N, dtype=complex)
    hot = sorted({1, 255, 256, N // 2 + 3, N - 2})
    w = [0.1, 0.2, 0.3, 0.15, 0.25][:len(hot)]
    w = np.array(w) / sum(w)
    for i, p_ in zip(hot, w):
        a[i] = np.sqrt(p_) * np.exp(0.4j * i)
    wf = Wavefunction(a.copy())
    if wf.n_qubits != n or len(wf) != N:
        return {"ok": False, "msg": "n_qubits / len of a %d-qubit wavefunction" % n, "observed": str((wf.n_qubits, len(wf))), "sig": "wide:size"}
    pr = np.asarray(wf.get_probabilities(), dtype=float).reshape(-1)
    if not _close(pr, np.abs(a) ** 2, atol=1e-12) or abs(pr.sum() - 1) > 1e-9:
        return {"ok": False, "msg": "probabilities of a %d-qubit wavefunction" % n, "sig": "wide:probabilities"}
    op = wf.get_outcome_probs()
    if len(op) != N or any(len(k_) != n for k_ in list(op)[:3] + list(op)[-3:]):
        return {"ok": False, "msg": "get_outcome_probs of a %d-qubit wavefunction: %d keys" % (n, len(op)), "sig": "wide:outcome-keys"}
    for i in hot:
        key = format(i, "0%db" % n)[::-1]
        if abs(op.get(key, -1) - abs(a[i]) ** 2) > 1e-12:
            return {"ok": False, "msg": "get_outcome_probs: key %s (basis index %d, bit q of the key = qubit q) carries %s" % (key, i, op.get(key)), "expected": float(abs(a[i]) ** 2), "sig": "wide:outcome-probs"}
    before = np.asarray(wf.amplitudes).reshape(-1).copy()
    for idx, val_, accept in ((hot[0], a[hot[0]] * 1j, True), (hot[-1], 0.99, False), (N - 1, 0.5, False), (300 if N > 300 else 3, 0.0, True)):
        try:
            wf[idx] = val_
            accepted = True
        except ValueError:
            accepted = False
        now = np.asarray(wf.amplitudes).reshape(-1)
        if accepted != accept:
            return {"ok": False, "msg": "assignment wf[%d] = %s on %d qubits was %s" % (idx, val_, n, "accepted" if accepted else "rejected"), "sig": "wide:assignment"}
        if accepted:
            before = before.copy()
            before[idx] = val_
        if not _close(now, before, atol=0) or abs(np.sum(np.abs(now) ** 2) - 1) > 1e-6:
            return {"ok": False, "msg": "after %s assignment wf[%d] on %d qubits the object is not %s" % ("an accepted" if accepted else "a rejected", idx, n, "updated and normalised" if accepted else "exactly as before"), "sig": "wide:rollback"}
    try:
        wf[250:260] = np.full(10, 0.5)
        return {"ok": False, "msg": "slice assignment that breaks normalisation was accepted on %d qubits" % n, "sig": "wide:slice-accepted"}
    except ValueError:
        if not _close(np.asarray(wf.amplitudes).reshape(-1), before, atol=0):
            return {"ok": False, "msg": "rejected slice assignment left the %d-qubit object modified" % n, "sig": "wide:slice-rollback"}
    return {"ok": True, "nt": True, "ops": 8, "out": "n%d" % n}


def io_case(case):
    """save/load of a numeric state reached by a history (root + hist), path and open file"""
    from orquestra.quantum.wavefunction import save_wavefunction, load_wavefunction
    wf, _ = mk_root(case["root"])
    for ev in case["hist"]:
        try:
            if ev[0] == "set":
                wf[ev[1]] = val(ev[2])
            elif ev[0] == "setslice":
                wf[slice(*ev[1])] = [val(v) for v in ev[2]]
            elif ev[0] == "flip":
                from orquestra.quantum.wavefunction import flip_wavefunction
                wf = flip_wavefunction(wf)
            elif ev[0] == "bind":
                wf = wf.bind({_ACTIVE[0][k]: val(v) for k, v in ev[1].items()})
        except Exception:  # noqa: BLE001
            pass
    snap = snapshot(wf)
    if not all(isinstance(e, list) for e in snap):
        return {"ok": True, "skip": True}
    d = tempfile.mkdtemp(prefix="c12.", dir=os.environ.get("VERIF_SCRATCH", "/dev/shm" if os.path.isdir("/dev/shm") else "/var/tmp"))
    try:
        p = os.path.join(d, "wf.json")
        save_wavefunction(wf, p)
        a = load_wavefunction(p)
        with open(p) as f:
            b = load_wavefunction(f)
        c = load_wavefunction(io.StringIO(open(p).read()))
    finally:
        import shutil
        shutil.rmtree(d, ignore_errors=True)
    for x in (a, b, c):
        if snapshot(x) != snap:
            return {"ok": False, "msg": "save/load changed the amplitudes", "expected": str(snap), "observed": str(snapshot(x)), "sig": "io"}
    if snapshot(wf) != snap:
        return {"ok": False, "msg": "save modified the wavefunction", "sig": "io:mutated"}
    return {"ok": True, "nt": True, "ops": 4, "out": "io"}


LIB_TOL = 1.001e-5   # the object's own rule: np.isclose(sum |a|^2, 1.0) = within 1e-8 + 1e-5


def nudge_case(case):
    """{'root': numeric vector, 'moves': [[index, delta] ...] repeated 'rounds' times}: a run of small same-direction changes, each of which is within
    the tolerance relative to the state before it: the OBJECT (not the step) must stay normalised, so the step that would carry the total past the
    tolerance is refused and leaves the object as it was"""
    wf, model = mk_root(case["root"])
    k = 0
    for rnd in range(case["rounds"]):
        for i, d in case["moves"]:
            cur = complex(np.asarray(wf[i]).reshape(-1)[0])
            new = cur + complex(*d) if isinstance(d, list) else cur + d
            before = snapshot(wf)
            try:
                wf[i] = new
                raised = False
            except Exception:  # noqa: BLE001
                raised = True
            k += 1
            tot = float(sum(abs(complex(np.asarray(wf[j]).reshape(-1)[0])) ** 2 for j in range(len(wf))))
            if abs(tot - 1) > LIB_TOL * 1.2:
                return {"ok": False, "msg": "after %d small assignments (each close to the state before it) the squared magnitudes sum to %.9f" % (k, tot), "expected": "|sum - 1| <= %g" % LIB_TOL,
                        "observed": tot, "sig": "nudge:drift", "ops": k}
            if raised and snapshot(wf) != before:
                return {"ok": False, "msg": "a refused small assignment left the object modified", "sig": "nudge:not-restored", "ops": k}
            p = np.asarray(wf.get_probabilities(), dtype=float).reshape(-1)
            if abs(p.sum() - tot) > 1e-12:
                return {"ok": False, "msg": "get_probabilities does not follow the amplitudes", "sig": "nudge:probabilities", "ops": k}
    return {"ok": True, "nt": True, "ops": k, "out": "rounds%d" % case["rounds"]}


FUNCS = {"real_storage": step, "dicke_wide": dicke_case, "flip_history": flip_history_case, "wide": wide_case, "nudges": nudge_case, "histories": step, "constructor": ctor_case, "dicke": dicke_case, "flip": flip_case, "save_load": io_case}


def run(run):
    thorough = run.tier == "thorough"
    depth = 5 if thorough else 3
    roots = ROOTS
    seen = run.bfs("histories", roots, events_for, step, depth,
                   desc="BFS over assignment / slice-assignment / bind / flip histories, depth %d, de-duplicated by (representation of the amplitude store, canonical amplitude tuple)" % depth)
    # the section name used for replay lookup is 'histories@depthN' -> FUNCS key 'histories'
    C = []
    for ln in (0, 3, 5, 6, 12):
        C.append({"kind": "n", "vec": [1] + [0] * (ln - 1) if ln else [], "valid": False})
    for vec, ok in (([0.5, 0], False), ([2, 0], False), ([1, 1], False), ([0.6, 0.8], True), ([0, 0, 0, [0, 1]], True), ([0.5, 0.5, 0.5, 0.5], True),
                    ([0.5, 0.5, 0.5, 0.6], False), ([0, 0], False)):
        C.append({"kind": "n", "vec": vec, "valid": ok})
        C.append({"kind": "l", "vec": vec, "valid": ok})
    for vec, ok in ((["a", 1.3], False), (["a", 0.6], True), (["a", "b"], True), (["a", 0.8, 0.8, 0], False), (["a", [0, 0.8], [0, 0.8], 0], False), (["a", 1, "b", 0.1], False),
                    (["a", "b", "c"], False), (["a", 0.5, "b", 0.5], True), (["a", [0, 1.1]], False)):
        C.append({"kind": "s", "vec": vec, "valid": ok})
        C.append({"kind": "l", "vec": vec, "valid": ok})
    NG = [{"root": r, "moves": mv, "rounds": rounds} for r in (["n", [0.6, 0.8]], ["ncol", [0.6, 0.8]], ["n", [0.5, 0.5, 0.5, 0.5]], ["n", [0.6, 0, 0, [0, 0.8]]])
          for mv in ([[0, 3e-6]], [[0, -3e-6]], [[1, 2e-6], [0, 2e-6]], [[-1, [0, 3e-6]]], [[0, 3e-6], [1, -1e-6]], [[0, 8e-6]], [[0, 4e-7]]) for rounds in (12, 40)]
    secs = [Section("nudges", NG, nudge_case, desc="runs of 12 / 40 small same-direction assignments (each within tolerance of the state before it): the object stays normalised"),
            Section("constructor", C, ctor_case, desc="constructor accepts exactly the power-of-two, normalised (or not-yet-exceeding) vectors")]
    # wavefunctions created from REAL data (float array, list of Python floats, integer array): every history of <= 2 assignments of complex values, single and slice
    rs_cases = []
    for root in (["nf", [0.6, 0.8]], ["nl", [0.6, 0.8]], ["nf", [0.6, 0.8, 0, 0]], ["nl", [0.6, 0.8, 0.0, 0.0]], ["ni", [1, 0]], ["ni", [0, 0, 1, 0]], ["nl", [0, 1]]):
        n_ = len(root[1])
        evs = [["set", i, v] for i in range(n_) for v in ([0, 0.8], [0, 1], [0, -0.6], 0.8, [0.6, 0], [0, 0.6])]
        evs += [["setslice", [0, None, 1], [[0, 0.6], [0, 0.8]] + [0] * (n_ - 2)], ["setslice", [0, None, 1], ([0.5, [0, 0.5], -0.5, [0, -0.5]] if n_ == 4 else [[0, S2], S2])], ["setslice", [0, None, 1], [0.6, 0.8] + [[0, 1]] * (n_ - 2) if n_ == 4 else [[0, 1], [0, 1]]]]
        rs_cases += [{"root": root, "hist": []}] + [{"root": root, "hist": [a]} for a in evs] + [{"root": root, "hist": [a, b]} for a in evs for b in evs]
    secs.append(Section("real_storage", rs_cases, step, desc="wavefunctions created from real-valued data (float array / list of floats / integer array): every history of <= 2 complex-valued single and slice assignments"))
    N = 10 if thorough else 8
    D = [{"n": n, "k": k} for n in range(1, N + 1) for k in range(-1, n + 2)] + [{"n": 3, "k": 1.0}, {"n": 3, "k": 1.5}]
    secs.append(Section("dicke", D, dicke_case, desc="dicke_state(n,k) for all n<=%d, k in -1..n+1" % N))
    secs.append(Section("flip", [{"n": n} for n in range(1, (8 if thorough else 6) + 1)], flip_case, desc="flip_amplitudes / flip_wavefunction = bit reversal, involution"))
    secs.append(Section("flip_history", [{"sizes": sz} for sz in ([3, 5, 4, 2, 5, 3, 1], [9, 8, 10, 3, 9, 1, 2], [6, 5, 4, 3, 2, 1, 2, 3, 4, 5, 6], [11, 4, 10, 4] if thorough else [10, 4, 9, 4], [2, 2, 7, 2])],
                        flip_history_case, chunk=1, desc="flips of widths up to 10 (thorough 11) in non-ascending, repeating orders within one process"))
    secs.append(Section("wide", [{"n": n} for n in ((9, 10, 11, 12, 13) if thorough else (9, 10, 12))], wide_case, chunk=1, desc="wavefunctions of 9-12 qubits: size, probabilities, outcome keys, accepted / rejected (rolled back) single and slice assignments"))
    Dw = [{"n": n, "k": k} for n in ((9, 10, 11, 12, 13, 14) if thorough else (9, 10, 12)) for k in sorted({0, 1, 2, n // 2, n - 1, n})]
    secs.append(Section("dicke_wide", Dw, dicke_case, chunk=1, desc="dicke_state(n,k) for n = 9-12 (thorough 14), k in {0, 1, 2, n/2, n-1, n}"))
    io_cases = [c for c in seen.values()][:: (1 if thorough else 3)]
    # states the object accepts although their norm is only tolerance-close to 1 (rounded amplitudes, states reached by small assignments): "the same amplitudes" come back, not nearby ones
    near = [["n", [0.70711, 0.70711]], ["n", [0.6000004, 0.8]], ["ncol", [0.70711, [0, 0.70711]]], ["n", [0.5, 0.5, 0.5, 0.500003]], ["n", [0.316228, 0.316228, [0, 0.632456], 0.632456]],
            ["n", [0.999997, 0]], ["n", [0, 0, 0, [0.6, -0.800003]]]]
    io_cases += [{"root": r, "hist": h} for r in near for h in ([], [["set", 0, 0.7071], ["set", -1, 0.70712]] if len(r[1]) == 2 else [["set", 1, 0.500001], ["flip"]])]
    secs.append(Section("save_load", io_cases, io_case, desc="save_/load_wavefunction on reachable numeric states (path, open file, StringIO)"))
    run.run_sections(secs)
