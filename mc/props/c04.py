"""C04 - every view of a simulated state agrees on which qubit is which (E1 + E3 over scripted sampler answers)."""
import itertools
from fractions import Fraction as F

import numpy as np
from mc.ref.linalg import allclose as _close

from mc.engine import Section
from mc.gates import G, mk_circuit
from mc.props.c01 import ref_unitary
from mc.ref import stats as rs
from mc import seams

RULE = ("circuits: every sequence of <=L operations over {X(q), RY(a_q)(q) with a different angle per qubit, H(q), CNOT(i,j) all ordered pairs} on "
        "n qubits (asymmetric states: distinct single-qubit marginals); per circuit: state vector, exact distribution (all 2^n keys), exact <Z_S> for "
        "ALL 2^n subsets S tied to the returned distribution, sampling through run_and_measure with the scripted default_rng for sample counts in "
        "both internal regimes (1, 2 <= 2^n and 2^n+1 > 2^n) under every answer script within the deviation bound, counts and measured <Z_S>. "
        "wide registers: X on every single qubit (and two patterns, and two-outcome states) on 9 qubits in both regimes. "
        "non-trivial = state not symmetric under qubit reversal; distinct = canonical circuit")
RULE += ' Also: a controlled RX(theta) on every ordered index tuple simulated symbolically and bound afterwards; sample counts from 999 to 100000 under scripted and real generators.'
RULE += ' Round 7: operators written with explicit identity factors; asymmetric numeric gates after a symbolic gate (late binding); one batch of equal operations on different register widths.'
RULE += ' Round 6: product states on 5-12 qubits: unevenly spaced qubit triples / quadruples, sums with different coefficients on qubits >= 8 and below, exact distribution of 11-12 qubits.'
RULE += ' Round 5: operator objects re-used across views with a qubit-reversed expectation in between; unsimplified sums repeating a string; CNOTs between far-apart qubits on 7/9-qubit registers.'
ASSUMPTIONS = ["gate matrices taken from the library (C02), embedding from the /verif reference (C01)", "np.random.default_rng(seed).choice is the only randomness in sampling (trapped otherwise)",
               "scripted picks are restricted to entries with p > 0 (numpy never returns a zero-probability entry)"]
BOUNDS = {"quick": {"n": [2, 3], "L": 2, "deviations": 1, "wide_n": [9]}, "thorough": {"n": [2, 3, 4], "L": "3 (n<=3), 2 (n=4)", "deviations": 2, "wide_n": [8, 9, 10]}}
ANG = [0.7, 1.9, 2.6, 0.4]
TOL = 1e-9


def alphabet(n):
    ops = [{"gate": G("X"), "q": [q]} for q in range(n)] + [{"gate": G("RY", ANG[q]), "q": [q]} for q in range(n)] + [{"gate": G("H"), "q": [q]} for q in range(n)]
    ops += [{"gate": G("CNOT"), "q": [i, j]} for i in range(n) for j in range(n) if i != j]
    return ops


def idx_of(bits, n):
    return sum(b << (n - 1 - q) for q, b in enumerate(bits))


def z_op(S):
    from orquestra.quantum.operators import PauliTerm
    return PauliTerm({q: "Z" for q in S}, 1.0) if S else PauliTerm("I0", 1.0)


def views_case(case):
    """{'ops': [...], 'n': n, 'bound': d}"""
    from orquestra.quantum.runners.symbolic_simulator import SymbolicSimulator
    from orquestra.quantum.measurements import Measurements
    n = case["n"]
    c = mk_circuit(case)
    psi = ref_unitary(case["ops"], n)[:, 0]
    pref = np.abs(psi) ** 2
    sim = SymbolicSimulator()
    k = 0
    wf = sim.get_wavefunction(c)
    k += 1
    if not _close(np.asarray(wf.amplitudes, dtype=complex).reshape(-1), psi, atol=TOL):
        return {"ok": False, "msg": "state vector differs from the reference", "expected": str(np.round(psi, 4).tolist()), "observed": str(wf.amplitudes), "sig": "views:state"}
    dist = sim.get_measurement_outcome_distribution(c, None).distribution_dict
    k += 1
    allkeys = list(itertools.product((0, 1), repeat=n))
    if sorted(dist.keys()) != allkeys:
        return {"ok": False, "msg": "exact distribution does not have every length-n outcome as key", "observed": str(sorted(dist.keys()))[:300], "sig": "views:distribution-keys"}
    for b in allkeys:
        if abs(dist[b] - pref[idx_of(b, n)]) > TOL:
            return {"ok": False, "msg": "exact distribution: key %s does not carry the probability of the basis state with qubit q = position q" % (b,),
                    "expected": float(pref[idx_of(b, n)]), "observed": float(dist[b]), "sig": "views:distribution"}
    subsets = [S for r in range(n + 1) for S in itertools.combinations(range(n), r)]
    for S in subsets:
        got = sim.get_exact_expectation_values(c, z_op(S))
        k += 1
        from_dist = sum(dist[b] * (-1) ** sum(b[q] for q in S) for b in allkeys)
        from_ref = sum(pref[idx_of(b, n)] * (-1) ** sum(b[q] for q in S) for b in allkeys)
        if abs(got - from_dist) > TOL or abs(got - from_ref) > TOL:
            return {"ok": False, "msg": "exact <Z_%s> is not the eigenvalue average under the exact distribution" % (list(S),), "expected": [float(from_dist), float(from_ref)],
                    "observed": float(got), "sig": "views:expectation"}
    # the same operator OBJECTS asked again after other views were computed from them (qubit-reversed expectation in between), and unsimplified sums
    # that repeat a Pauli string: the exact expectation is still the eigenvalue average
    from orquestra.quantum.operators import PauliSum, PauliTerm, get_expectation_value
    zops = {S: z_op(S) for S in subsets}
    for S in subsets:
        op = zops[S]
        ref = sum(pref[idx_of(b, n)] * (-1) ** sum(b[q] for q in S) for b in allkeys)
        first = sim.get_exact_expectation_values(c, op)
        width = max(n, 1)
        revd = complex(get_expectation_value(op, wf, reverse_operator=True)) if (not S or max(S) < width) else None
        again = sim.get_exact_expectation_values(c, op)
        k += 3
        Srev = tuple(n - 1 - q for q in S)
        ref_rev = sum(pref[idx_of(b, n)] * (-1) ** sum(b[q] for q in Srev) for b in allkeys)
        if abs(first - ref) > TOL or abs(again - ref) > TOL:
            return {"ok": False, "msg": "exact <Z_%s> asked twice for one operator object (a qubit-reversed expectation in between): %s then %s" % (list(S), first, again), "expected": float(ref),
                    "observed": [float(np.real(first)), float(np.real(again))], "sig": "views:expectation-again"}
        op2 = z_op(S)      # a second object: qubit-reversed view first, ordinary view afterwards
        revd2 = complex(get_expectation_value(op2, wf, reverse_operator=True))
        fwd2 = sim.get_exact_expectation_values(c, op2)
        k += 2
        if abs(revd2 - ref_rev) > TOL or abs(fwd2 - ref) > TOL:
            return {"ok": False, "msg": "one operator object Z_%s: qubit-reversed expectation first (%s, expected %s), exact expectation afterwards (%s, expected %s)" % (list(S), revd2, ref_rev, fwd2, ref),
                    "sig": "views:expectation-after-reversed"}
        if revd is not None and abs(revd - ref_rev) > TOL:
            return {"ok": False, "msg": "reverse_operator=True expectation of Z_%s is not <Z_%s>" % (list(S), list(Srev)), "expected": float(ref_rev), "observed": str(revd), "sig": "views:expectation-reversed"}
        for dup, scale in ((PauliSum([op, op]), 2.0), (PauliSum([PauliTerm.copy(op, 0.5), PauliTerm("I0", 0.25), PauliTerm.copy(op, 1.5), PauliTerm("I0", 0.5)]), None)):
            got = sim.get_exact_expectation_values(c, dup)
            want = 2.0 * ref if scale else 2.0 * ref + 0.75
            k += 1
            if abs(got - want) > TOL:
                return {"ok": False, "msg": "exact expectation of an unsimplified sum repeating Z_%s" % (list(S),), "expected": float(want), "observed": float(np.real(got)), "sig": "views:expectation-repeated"}
    # sampling: both regimes, every answer script within the bound
    support = [b for b in allkeys if pref[idx_of(b, n)] > 1e-12]
    n_exec = 0
    outcomes = set()
    for n_samples in (1, 2, 2 ** n + 1):
        def execute(script):
            with seams.owned_rng(script):
                m = SymbolicSimulator(seed=7).run_and_measure(c, n_samples)
            return m
        bound = case["bound"] if n_samples > 2 else None
        for choices, m, script in seams.explore(execute, bound=bound, max_exec=100000):
            n_exec += 1
            shots = [tuple(s) for s in m.bitstrings]
            if len(script.calls) != 1:
                return {"ok": False, "inconclusive": "sampler made %d RNG calls (harness expects one)" % len(script.calls)}
            call = script.calls[0]
            bad = None
            if len(shots) < n_samples:
                bad = "fewer samples than requested"
            for s, i in zip(shots, call["idx"]):
                if len(s) != n or any(x not in (0, 1) for x in s):
                    bad = "sample %s is not a tuple of n bits" % (s,)
                elif pref[idx_of(s, n)] <= 1e-12:
                    bad = "sample %s has zero exact probability" % (s,)
                elif abs(pref[idx_of(s, n)] - call["p"][i]) > 1e-9:
                    bad = "sample %s: its exact probability %.6f is not the probability %.6f of the entry the sampler picked" % (s, pref[idx_of(s, n)], call["p"][i])
                if bad:
                    break
            if bad:
                return {"ok": False, "msg": "sampling (%d samples, answers %s): %s" % (n_samples, choices, bad), "observed": str(shots)[:300], "sig": "views:sampling", "ops": k + n_exec}
            outcomes.update(shots)
            # counts strings are the tuples written left to right; measured <Z_S> is the sample mean
            counts = m.get_counts()
            ref_counts = {}
            for s in shots:
                ref_counts["".join(map(str, s))] = ref_counts.get("".join(map(str, s)), 0) + 1
            if dict(counts) != ref_counts:
                return {"ok": False, "msg": "count strings are not the sampled tuples written left to right", "expected": ref_counts, "observed": dict(counts), "sig": "views:counts"}
            if n_samples > 2 or choices == [0] * len(choices):
                for S in subsets:
                    ev = m.get_expectation_values(z_op(S)).values[0]
                    exp = float(rs.mean([F(rs.eig(s, S)) for s in shots]))
                    if abs(ev - exp) > 1e-12:
                        return {"ok": False, "msg": "measured <Z_%s> is not the sample mean of the eigenvalue" % (list(S),), "expected": exp, "observed": float(ev), "sig": "views:measured-expectation"}
    # measured expectation on a multi-outcome sample set with pairwise different counts (outcome i of the support gets i+1 shots), for every subset,
    # including operators narrower than the register
    if len(support) >= 2:
        shots = [b for i, b in enumerate(support) for _ in range(i + 1)]
        m = Measurements(list(shots))
        from orquestra.quantum.operators import PauliSum, PauliTerm
        for S in subsets:
            for op in (z_op(S), PauliSum([z_op(S), PauliTerm("I0", 0.5)])):
                ev = m.get_expectation_values(op).values[0]
                exp = float(rs.mean([F(rs.eig(s, S)) for s in shots]))
                if abs(ev - exp) > 1e-12:
                    return {"ok": False, "msg": "measured <Z_%s> on %d shots over %d outcomes is not the sample mean (position q of a count string = qubit q)" % (list(S), len(shots), len(support)),
                            "expected": exp, "observed": float(ev), "sig": "views:measured-expectation-multi"}
    if set(outcomes) != set(support) and len(support) <= 2 ** n:
        # every supported outcome must be reachable by some answer (the enumeration is complete for 1 and 2 samples)
        return {"ok": False, "msg": "some outcome with non-zero exact probability can never be sampled", "expected": str(support), "observed": str(sorted(outcomes)), "sig": "views:unreachable"}
    rev = np.array([pref[idx_of(b[::-1], n)] for b in allkeys])
    return {"ok": True, "nt": not _close(rev, np.array([pref[idx_of(b, n)] for b in allkeys]), atol=1e-6), "ops": k + n_exec, "out": "support%d" % len(support),
            "extra": {"sampling_executions": n_exec}}


def real_rng_case(case):
    """seam validation: the same circuits with the real default_rng(seed): every sample lies in what the enumeration allows"""
    from orquestra.quantum.runners.symbolic_simulator import SymbolicSimulator
    n = case["n"]
    c = mk_circuit(case)
    pref = np.abs(ref_unitary(case["ops"], n)[:, 0]) ** 2
    for seed in range(5):
        for ns in (2, 2 ** n + 3):
            m = SymbolicSimulator(seed=seed).run_and_measure(c, ns)
            for s in m.bitstrings:
                if len(s) != n or pref[idx_of(tuple(s), n)] <= 1e-12:
                    return {"ok": False, "msg": "real RNG seed %d: sample %s has zero exact probability or wrong length" % (seed, s), "sig": "views:real-rng"}
            if len(m.bitstrings) < ns:
                return {"ok": False, "msg": "fewer samples than requested", "sig": "views:real-rng-count"}
    return {"ok": True, "nt": True, "ops": 10, "out": "real"}


def wide_case(case):
    """{'n': n, 'x': [qubits flipped], 'ry': qubit rotated or None, 'samples': k}: wide registers (basis-state index needs more than one byte):
    state index, exact distribution key, exact <Z_q>, and samples in the given regime all name the same qubits"""
    from orquestra.quantum import circuits as C
    from orquestra.quantum.runners.symbolic_simulator import SymbolicSimulator
    n, xs, ry, k = case["n"], case["x"], case["ry"], case["samples"]
    cnots = [tuple(ct) for ct in case.get("cnot", [])]
    ops = [C.X(q) for q in xs] + ([C.RY(0.7)(ry)] if ry is not None else []) + [C.CNOT(ct, tg) for ct, tg in cnots]
    c = C.Circuit(ops, n_qubits=n)
    bits = tuple(1 if q in xs else 0 for q in range(n))
    support = {bits: 1.0}
    if ry is not None:
        b1 = tuple(1 - b if q == ry else b for q, b in enumerate(bits))
        p1 = float(np.sin(0.35) ** 2)
        support = {bits: 1 - p1, b1: p1}
    for ct, tg in cnots:      # a CNOT permutes basis states: the target bit of every supported outcome is flipped where its control bit is 1
        support = {tuple((x ^ b[ct]) if q == tg else x for q, x in enumerate(b)): pr for b, pr in support.items()}
    bits = max(support, key=support.get)
    sim = SymbolicSimulator()
    amps = np.asarray(sim.get_wavefunction(c).amplitudes, dtype=complex).reshape(-1)
    probs = np.abs(amps) ** 2
    for b, pr in support.items():
        if abs(probs[idx_of(b, n)] - pr) > TOL:
            return {"ok": False, "msg": "state vector: basis index of outcome %s does not carry probability %.4f" % (b, pr), "observed": float(probs[idx_of(b, n)]), "sig": "wide:state"}
    dist = sim.get_measurement_outcome_distribution(c, None).distribution_dict
    for b, pr in support.items():
        if abs(dist.get(b, 0.0) - pr) > TOL:
            return {"ok": False, "msg": "exact distribution: key %s should carry %.4f" % (b, pr), "observed": float(dist.get(b, 0.0)), "sig": "wide:distribution"}
    for q in sorted({0, 1, n // 2, n - 2, n - 1} | set(xs) | {x for ct in cnots for x in ct}):
        got = sim.get_exact_expectation_values(c, z_op((q,)))
        exp = sum(pr * (-1) ** b[q] for b, pr in support.items())
        if abs(got - exp) > TOL:
            return {"ok": False, "msg": "exact <Z_%d> on %d qubits" % (q, n), "expected": exp, "observed": float(got), "sig": "wide:expectation"}
    n_exec = 0
    seen = set()

    def execute(script):
        with seams.owned_rng(script):
            return SymbolicSimulator(seed=3).run_and_measure(c, k)
    for choices, m, script in seams.explore(execute, bound=1, max_exec=5000):
        n_exec += 1
        shots = [tuple(x) for x in m.bitstrings]
        if len(shots) < k:
            return {"ok": False, "msg": "fewer samples than requested", "sig": "wide:count"}
        call = script.calls[0]
        for sh, i in zip(shots, call["idx"]):
            if len(sh) != n or sh not in support:
                return {"ok": False, "msg": "%d samples on %d qubits (answers with %d deviations): sample %s has zero exact probability or wrong length" % (k, n, sum(1 for x in choices if x), sh),
                        "expected": str(list(support)), "observed": str(sh), "sig": "wide:sampling"}
            if abs(support[sh] - call["p"][i]) > 1e-9:
                return {"ok": False, "msg": "sample %s is not the outcome the sampler picked (p=%.4f)" % (sh, call["p"][i]), "sig": "wide:sampling-pick"}
        seen.update(shots)
        counts = m.get_counts()
        ref_counts = {}
        for sh in shots:
            ref_counts["".join(map(str, sh))] = ref_counts.get("".join(map(str, sh)), 0) + 1
        if dict(counts) != ref_counts:
            return {"ok": False, "msg": "count strings are not the sampled tuples written left to right", "sig": "wide:counts"}
        for q in sorted({0, n - 1, xs[0] if xs else 1} | {x for ct in cnots for x in ct}):
            ev = m.get_expectation_values(z_op((q,))).values[0]
            exp = float(rs.mean([F(rs.eig(sh, (q,))) for sh in shots]))
            if abs(ev - exp) > 1e-12:
                return {"ok": False, "msg": "measured <Z_%d> is not the sample mean" % q, "expected": exp, "observed": float(ev), "sig": "wide:measured"}
    if seen != set(support):
        return {"ok": False, "msg": "some supported outcome was never sampled under any answer", "sig": "wide:unreachable"}
    return {"ok": True, "nt": bits != bits[::-1], "ops": 4 + n_exec, "out": "n%d-k%s" % (n, "few" if k <= 2 ** n else "many"), "extra": {"sampling_executions": n_exec}}


def product_wide_case(case):
    """{'n': n}: a PRODUCT state with a different polarisation on every qubit (RY(alpha_q) on qubit q) on a register of 5-12 qubits: exact <O> for Z operators that couple low and
    high qubits with DIFFERENT coefficients, on every multi-qubit subset shape (unevenly spaced triples and quadruples included); the exact distribution; and expectation values /
    frequencies / parity tallies measured on a fixed asymmetric shot list - all name the same qubits"""
    from orquestra.quantum import circuits as C
    from orquestra.quantum.measurements import Measurements, get_expectation_value_from_frequencies, get_parities_from_measurements
    from orquestra.quantum.operators import PauliTerm, PauliSum
    from orquestra.quantum.runners.symbolic_simulator import SymbolicSimulator
    n = case["n"]
    alpha = [0.35 + 0.23 * q for q in range(n)]
    zexp = [float(np.cos(a)) for a in alpha]          # <Z_q> of RY(alpha)|0>
    c = C.Circuit([C.RY(alpha[q])(q) for q in range(n)], n_qubits=n)
    sim = SymbolicSimulator()
    k = 0
    hi = n - 1
    subsets = [s_ for r_ in (1, 2, 3, 4) for s_ in itertools.combinations(range(n), r_)] if n <= 7 else \
        [(0,), (hi,), (8,), (1, 8), (8, 1), (3, 8), (0, hi), (1, 2, hi), (0, 1, 4), (0, 3, 4), (0, 1, 3, 6), (2, 8, hi) if hi > 8 else (2, 5, 8), (0, 4, 8), (1, 7, 8), (0, 1, 8, hi - 1)]
    light = bool(case.get("light"))      # 11+ qubits: one exact evaluation costs seconds - a handful of operators, the full distribution, the measured part
    for S in (subsets if not light else [(0,), (hi,), (1, 8), (0, 1, 4)]):
        S = tuple(dict.fromkeys(S))
        got = sim.get_exact_expectation_values(c, z_op(S))
        exp = float(np.prod([zexp[q] for q in S]))
        k += 1
        if abs(got - exp) > 1e-9:
            return {"ok": False, "msg": "exact <Z_%s> of a product state on %d qubits" % (list(S), n), "expected": exp, "observed": float(got), "sig": "product:exact", "ops": k}
    # sums whose terms sit on different qubits with different coefficients (a relabelling of the operator's qubits would exchange them)
    pairs = [(a, b) for a in range(n) for b in range(n) if a < b] if n <= 7 else [(1, 8), (3, 8), (0, hi), (8, hi) if hi > 8 else (7, 8), (2, hi), (1, 2), (7, 8), (0, 8), (5, hi)]
    for a, b in (pairs if not light else [(1, 8), (8, hi)]):
        for op, exp in ((PauliSum([PauliTerm({a: "Z"}, 2.0), PauliTerm({b: "Z"}, 1.0)]), 2 * zexp[a] + zexp[b]),
                        (PauliSum([PauliTerm({b: "Z"}, 1.0), PauliTerm({a: "Z"}, 2.0)]), 2 * zexp[a] + zexp[b]),
                        (PauliSum([PauliTerm({a: "Z", b: "Z"}, 1.0), PauliTerm({b: "Z"}, 0.5)]), zexp[a] * zexp[b] + 0.5 * zexp[b]),
                        (PauliSum([PauliTerm({a: "X"}, 1.5), PauliTerm({b: "Z"}, -1.0)]), 1.5 * float(np.sin(alpha[a])) - zexp[b])):
            got = sim.get_exact_expectation_values(c, op)
            k += 1
            if abs(got - exp) > 1e-9:
                return {"ok": False, "msg": "exact <%s> of a product state on %d qubits" % (op, n), "expected": float(exp), "observed": float(got), "sig": "product:exact-sum", "ops": k}
    # exact distribution: every key present, probability = product of the per-qubit probabilities of its bits
    dist = sim.get_measurement_outcome_distribution(c, None).distribution_dict
    p1 = [float(np.sin(a / 2) ** 2) for a in alpha]
    if len(dist) != 2 ** n or any(len(key) != n for key in dist):
        return {"ok": False, "msg": "exact distribution on %d qubits has %d keys (lengths %s)" % (n, len(dist), sorted({len(key) for key in dist})), "sig": "product:distribution-keys", "ops": k}
    probe = [tuple(1 if q in on else 0 for q in range(n)) for on in ((), (0,), (hi,), (0, hi), (1, 2), (hi - 1,), tuple(range(0, n, 2)), tuple(range(n)))]
    for key in probe:
        exp = float(np.prod([p1[q] if key[q] else 1 - p1[q] for q in range(n)]))
        k += 1
        if abs(dist.get(key, -1.0) - exp) > 1e-10:
            return {"ok": False, "msg": "exact distribution on %d qubits: outcome %s" % (n, key), "expected": exp, "observed": float(dist.get(key, -1.0)), "sig": "product:distribution", "ops": k}
    tot = float(sum(pr * (-1) ** (key[0] + key[hi]) for key, pr in dist.items()))
    if abs(tot - zexp[0] * zexp[hi]) > 1e-9:
        return {"ok": False, "msg": "average of Z_0 Z_%d under the exact distribution differs from its exact expectation" % hi, "expected": zexp[0] * zexp[hi], "observed": tot, "sig": "product:distribution-vs-exact", "ops": k}
    # measured: a fixed asymmetric shot list (multiplicities 1..), every subset shape
    shots = []
    for j in range(23):
        b = tuple(((j * (q + 3) + (q * q) // 2 + (j >> (q % 3))) % 3 == 0) * 1 for q in range(n))
        shots += [b] * (1 + j % 4)
    m = Measurements(list(shots))
    counts = m.get_counts()
    msub = subsets if n <= 7 else subsets + [(0, 2, 3), (0, 1, 4, 5), (2, 3, 6), (1, 4, 5, 8), (0, 2, 6), (0, 6, 8)]
    for S in msub:
        S = tuple(dict.fromkeys(S))
        exp = float(rs.mean([F(rs.eig(sh, S)) for sh in shots]))
        got = m.get_expectation_values(z_op(S)).values[0]
        # the same operator written with EXPLICIT identity factors on other qubits (dict and text form): an identity acts on no qubit, in every view
        idle = [q for q in range(n) if q not in S][:2]
        if idle and S:
            for alt in (PauliTerm({**{q: "Z" for q in S}, **{q: "I" for q in idle}}, 1.0), PauliTerm("*".join(["Z%d" % q for q in S] + ["I%d" % q for q in idle]))):
                ga = m.get_expectation_values(PauliSum([alt])).values[0]
                k += 1
                if abs(ga - exp) > 1e-9:
                    return {"ok": False, "msg": "measured <%s> (explicit identity factors on qubits %s) differs from the sample mean of Z on %s" % (alt, idle, list(S)), "expected": exp, "observed": float(ga), "sig": "product:measured-identity", "ops": k}
            if not light and len(S) <= 2:
                ge = sim.get_exact_expectation_values(c, PauliSum([alt]))
                if abs(ge - float(np.prod([zexp[q] for q in S]))) > 1e-9:
                    return {"ok": False, "msg": "exact <%s> with explicit identity factors" % alt, "sig": "product:exact-identity", "ops": k}
        gf = get_expectation_value_from_frequencies(list(S), dict(counts))
        pr = get_parities_from_measurements(list(shots), PauliSum([PauliTerm({q: "Z" for q in S}, 1.0)]))
        ev = sum(1 for sh in shots if rs.eig(sh, S) == 1)
        k += 3
        if abs(got - exp) > 1e-9 or abs(gf - exp) > 1e-9 or np.asarray(pr.values).tolist() != [[ev, len(shots) - ev]]:
            return {"ok": False, "msg": "measured statistics of Z on qubits %s (register of %d): expectation values / frequencies / parity tallies do not use these qubits" % (list(S), n),
                    "expected": str([exp, exp, [[ev, len(shots) - ev]]]), "observed": str([float(got), float(gf), np.asarray(pr.values).tolist()]), "sig": "product:measured", "ops": k}
    return {"ok": True, "nt": True, "ops": k, "out": "n%d" % n}


def symbolic_case(case):
    """{'n': n, 'q': index tuple of a controlled RX(theta), 'pre': qubits flipped first}: the state vector of a circuit with a free symbol, bound afterwards,
    names the same qubits as the circuit bound first (and as the reference)"""
    import sympy
    from orquestra.quantum import circuits as C
    from orquestra.quantum.runners.symbolic_simulator import SymbolicSimulator
    n, q = case["n"], case["q"]
    th = sympy.Symbol("theta")
    gate = C.RX(th).controlled(len(q) - 1)
    post = case.get("post", [])        # numeric gates that follow the symbolic one: they act on a state that already holds expressions
    from mc.gates import mk_gate
    ops = [C.X(p) for p in case["pre"]] + [gate(*q)] + [C.RY(ANG[0])(q[-1])] + [mk_gate(o["gate"])(*o["q"]) for o in post]
    circ = C.Circuit(ops, n_qubits=n)
    k = 0
    for v in (0.9, float(np.pi)):
        ref_ops = [{"gate": G("X"), "q": [p]} for p in case["pre"]] + [{"gate": {"w": "controlled", "k": len(q) - 1, "of": G("RX", v)}, "q": list(q)}, {"gate": G("RY", ANG[0]), "q": [q[-1]]}] + list(post)
        psi = ref_unitary(ref_ops, n)[:, 0]
        wf = SymbolicSimulator().get_wavefunction(circ)
        late = np.asarray(wf.bind({th: v}).amplitudes, dtype=complex).reshape(-1)
        early = np.asarray(SymbolicSimulator().get_wavefunction(circ.bind({th: v})).amplitudes, dtype=complex).reshape(-1)
        k += 2
        if not _close(late, psi, atol=TOL):
            return {"ok": False, "msg": "symbolic state vector bound at theta=%s differs from the reference state (gate on qubits %s of %d)" % (v, q, n), "expected": str(np.round(psi, 4).tolist()),
                    "observed": str(np.round(late, 4).tolist()), "sig": "symbolic:late-bind", "ops": k}
        if not _close(early, psi, atol=TOL):
            return {"ok": False, "msg": "state of the circuit bound first differs from the reference", "sig": "symbolic:early-bind", "ops": k}
    return {"ok": True, "nt": list(q) != sorted(q) or q[-1] - q[0] != len(q) - 1, "ops": k, "out": "n%d" % n}


def batch_width_case(case):
    """{'ops': [...], 'widths': [w...], 'shots': k}: ONE run_batch_and_measure call with circuits that list the same operations on registers of different widths (and equal circuits
    twice): result i has tuples as long as circuit i's register, every outcome has non-zero exact probability for circuit i"""
    from orquestra.quantum import circuits as C
    from orquestra.quantum.runners.symbolic_simulator import SymbolicSimulator
    from mc.gates import mk_gate
    circs = [C.Circuit([mk_gate(o["gate"])(*o["q"]) for o in case["ops"]], n_qubits=w) if w else C.Circuit([mk_gate(o["gate"])(*o["q"]) for o in case["ops"]]) for w in case["widths"]]
    sim = SymbolicSimulator(seed=5)
    res = sim.run_batch_and_measure(circs, case["shots"])
    if len(res) != len(circs):
        return {"ok": False, "msg": "%d results for %d circuits" % (len(res), len(circs)), "sig": "batchwidth:count"}
    for i, (c, m) in enumerate(zip(circs, res)):
        n = c.n_qubits
        psi = ref_unitary(case["ops"], n)[:, 0]
        for sh in m.bitstrings:
            if len(sh) != n or abs(psi[idx_of(tuple(sh), n)]) ** 2 < 1e-12:
                return {"ok": False, "msg": "batch of circuits with equal operations on registers %s: result %d holds the outcome %s (register of %d qubits)" % ([x.n_qubits for x in circs], i, tuple(sh), n),
                        "sig": "batchwidth:outcome"}
        cnt = m.get_counts()
        if any(len(key) != n for key in cnt):
            return {"ok": False, "msg": "count strings of result %d are not as long as its register" % i, "sig": "batchwidth:counts"}
    return {"ok": True, "nt": len(set(c.n_qubits for c in circs)) >= 2, "ops": len(circs), "out": "batch"}


def many_case(case):
    """{'ops', 'n', 'samples': k, 'rng': 'script'|seed}: large sample counts (a count-dependent code path must still name the same qubits): every shot lies in
    the support, count strings are the tuples written left to right, the empirical distribution and measured <Z_S> are those of the tuples"""
    from collections import Counter
    from orquestra.quantum.runners.symbolic_simulator import SymbolicSimulator
    n, k = case["n"], case["samples"]
    c = mk_circuit(case)
    pref = np.abs(ref_unitary(case["ops"], n)[:, 0]) ** 2
    allkeys = list(itertools.product((0, 1), repeat=n))
    support = [b for b in allkeys if pref[idx_of(b, n)] > 1e-12]
    if case["rng"] == "script":
        script = seams.Script([i % len(support) for i in range(97)])
        with seams.owned_rng(script):
            m = SymbolicSimulator(seed=7).run_and_measure(c, k)
        picks = script.calls[0]
    else:
        m = SymbolicSimulator(seed=case["rng"]).run_and_measure(c, k)
        picks = None
    shots = [tuple(int(x) for x in s) for s in m.bitstrings]
    if len(shots) < k:
        return {"ok": False, "msg": "fewer samples than requested", "sig": "many:count"}
    for j, sh in enumerate(shots):
        if len(sh) != n or sh not in support:
            return {"ok": False, "msg": "%d samples: sample %s has zero exact probability or wrong length" % (k, sh), "sig": "many:support"}
        if picks is not None and abs(pref[idx_of(sh, n)] - picks["p"][picks["idx"][j]]) > 1e-9:
            return {"ok": False, "msg": "%d samples: sample %d is %s, not the outcome the sampler picked" % (k, j, sh), "sig": "many:pick"}
    ref_counts = Counter("".join(map(str, sh)) for sh in shots)
    counts = m.get_counts()
    if dict(counts) != dict(ref_counts):
        return {"ok": False, "msg": "%d samples: count strings are not the sampled tuples written left to right" % k, "expected": str(dict(ref_counts))[:300], "observed": str(dict(counts))[:300], "sig": "many:counts"}
    d = m.get_distribution().distribution_dict
    if {key: round(v * len(shots)) for key, v in d.items()} != {tuple(int(ch) for ch in key): v for key, v in ref_counts.items()}:
        return {"ok": False, "msg": "%d samples: empirical distribution is not counts / N keyed by the tuples" % k, "sig": "many:distribution"}
    hist = Counter(shots)
    for S in [S for r in range(n + 1) for S in itertools.combinations(range(n), r)]:
        ev = m.get_expectation_values(z_op(S)).values[0]
        exp = float(sum(F(v * rs.eig(sh, S)) for sh, v in hist.items()) / len(shots))
        if abs(ev - exp) > 1e-12:
            return {"ok": False, "msg": "%d samples: measured <Z_%s> is not the sample mean" % (k, list(S)), "expected": exp, "observed": float(ev), "sig": "many:measured"}
    return {"ok": True, "nt": len(support) >= 1, "ops": 3 + 2 ** n, "out": "k%d" % k}


FUNCS = {"batch_widths": batch_width_case, "product_wide": product_wide_case, "many_samples": many_case, "symbolic": symbolic_case, "views": views_case, "real_rng": real_rng_case, "wide": wide_case}


def run(run):
    thorough = run.tier == "thorough"
    cases = []
    plan = [(2, 3, 2), (3, 3, 2), (4, 2, 1)] if thorough else [(2, 2, 1), (3, 2, 1)]
    for n, Lmax, bound in plan:
        A = alphabet(n)
        for ln in range(0, Lmax + 1):
            for combo in itertools.product(range(len(A)), repeat=ln):
                cases.append({"ops": [A[i] for i in combo], "n": n, "bound": bound if ln <= 2 else 1})
    secs = [Section("views", cases, views_case, horizon=900, desc="state / exact distribution / exact <Z_S> / scripted sampling in both regimes / counts / measured <Z_S>"),
            Section("real_rng", cases[::9], real_rng_case, desc="real default_rng(seed), seeds 0..4: samples inside the support and of register length")]
    # product-state preparation (every basis state populated, pairwise different probabilities) followed by every sequence of <= 2 entangling / permuting operations
    for n in ((2, 3, 4) if thorough else (2, 3)):
        prep = [{"gate": G("RY", ANG[q]), "q": [q]} for q in range(n)]
        B = [{"gate": G("CNOT"), "q": [i, j]} for i in range(n) for j in range(n) if i != j] + [{"gate": G("SWAP"), "q": [i, j]} for i in range(n) for j in range(i + 1, n)]
        B += [{"gate": G("X"), "q": [q]} for q in range(n)] + [{"gate": G("CZ"), "q": [n - 1, 0]}]
        for ln in (1, 2):
            for combo in itertools.product(range(len(B)), repeat=ln):
                cases.append({"ops": prep + [B[i] for i in combo], "n": n, "bound": 1 if n < 4 else 0})
    secs[0] = Section("views", cases, views_case, horizon=900, desc=secs[0].desc + "; also after a product-state preparation, every sequence of <= 2 ops over CNOT (ordered pairs), SWAP, X, CZ")
    sy = []
    for n in ((3, 4) if thorough else (3,)):
        for kk in (2, 3):
            for q in itertools.permutations(range(n), kk):
                for pre in ([q[0]] if kk == 2 else [q[0], q[1]], list(q[:-1]) + [q[-1]]):
                    sy.append({"n": n, "q": list(q), "pre": pre})
    if not thorough:
        sy += [{"n": 4, "q": list(q), "pre": [q[0]]} for q in itertools.permutations(range(4), 2)]
    # numeric gates that are NOT symmetric in their qubits, applied after the symbolic gate (on a state that already holds expressions), on every ordered pair
    for q2 in itertools.permutations(range(3), 2):
        for pg in (G("CNOT"), G("custom2"), {"w": "controlled", "k": 1, "of": G("RZ", 0.7)}, G("MS", 0.3, 1.1)):
            sy.append({"n": 3, "q": [q2[1], q2[0]], "pre": [q2[1]], "post": [{"gate": pg, "q": list(q2)}]})
            sy.append({"n": 3, "q": [0, 1, 2], "pre": [0, 1], "post": [{"gate": pg, "q": list(q2)}, {"gate": G("custom1"), "q": [q2[0]]}]})
    secs.append(Section("symbolic", sy, symbolic_case, horizon=900, desc="a controlled RX(theta) on every ordered index tuple: symbolic state vector bound afterwards vs circuit bound first vs reference"))
    mcirc = [{"ops": [{"gate": G("X"), "q": [0]}], "n": 2}, {"ops": [{"gate": G("X"), "q": [2]}, {"gate": G("RY", ANG[1]), "q": [0]}], "n": 3},
             {"ops": [{"gate": G("RY", ANG[0]), "q": [0]}, {"gate": G("CNOT"), "q": [0, 2]}, {"gate": G("X"), "q": [1]}], "n": 3}, {"ops": [{"gate": G("X"), "q": [1]}, {"gate": G("X"), "q": [3]}], "n": 4}]
    sizes = (999, 4097, 10001, 20000, 32769, 65537, 100000, 250000) if thorough else (999, 4097, 20000, 65537, 100000)
    mc_ = [{**c, "samples": k, "rng": r} for c in mcirc for k in sizes for r in (("script", 0, 1) if thorough else ("script", 0))]
    secs.append(Section("many_samples", mc_, many_case, horizon=900, chunk=1, desc="sample counts from 999 to 100000 (thorough 250000): scripted answers cycling through the support and the real generator"))
    wide = []
    for n in ((8, 9, 10) if thorough else (9,)):
        pats = [[q] for q in range(n)] + [[0, n - 2], [1, 2, n - 1]]
        for xs in pats:
            for k in (1, 2 ** n + 1):
                wide.append({"n": n, "x": xs, "ry": None, "samples": k})
        for xs, ry in (([0], n - 1), ([n - 1], 0), ([1], n // 2)):
            for k in (2, 2 ** n + 1):
                wide.append({"n": n, "x": xs, "ry": ry, "samples": k})
    # two-qubit gates whose qubits are far apart (a distance no small register contains), in both directions, after a flip of the control / of a bystander
    for n in ((7, 8, 9, 10) if thorough else (7, 9)):
        for ct, tg in ((0, n - 1), (n - 1, 0), (1, n - 2), (n - 1, 1), (0, 6), (n - 2, 0)):
            wide.append({"n": n, "x": [ct], "ry": None, "cnot": [[ct, tg]], "samples": 1})
            wide.append({"n": n, "x": [tg], "ry": None, "cnot": [[ct, tg]], "samples": 2 ** n + 1})
            wide.append({"n": n, "x": [], "ry": ct, "cnot": [[ct, tg], [tg, (ct + 1) % n if (ct + 1) % n != tg else (ct + 2) % n]], "samples": 2})
    secs.append(Section("wide", wide, wide_case, horizon=900, desc="registers of 9 (thorough 8-10) qubits, where a basis index needs more than one byte: basis and two-outcome states, also entangled by CNOTs between far-apart qubits (7 and 9 qubits), "
                        "both sampling regimes (1-2 samples, 2^n+1 samples), every answer script with <= 1 deviation"))
    bw = [{"ops": o_, "widths": w_, "shots": k_} for o_ in ([{"gate": G("X"), "q": [0]}], [{"gate": G("X"), "q": [1]}, {"gate": G("CNOT"), "q": [1, 0]}], [{"gate": G("RY", 0.7), "q": [1]}, {"gate": G("X"), "q": [0]}])
          for w_ in ([None, 4], [4, None], [2, 3, 2], [3, 3], [None, 5, 3]) for k_ in (3, 40)]
    secs.append(Section("batch_widths", bw, batch_width_case, desc="one batch call with circuits listing the same operations on registers of different widths: every result belongs to its own circuit"))
    secs.append(Section("product_wide", [{"n": n_, "light": n_ >= 11} for n_ in ((5, 6, 7, 9, 10, 11, 12, 13) if thorough else (5, 6, 7, 9, 10, 11))], product_wide_case, horizon=900, chunk=1,
                        desc="product states with a different polarisation per qubit on 5-11 (thorough 13) qubits: exact <O> for operators coupling low and high qubits with different coefficients, every subset shape of <= 4 "
                        "qubits (5-7 qubits), exact distribution, measured expectation values / frequencies / parity tallies"))
    run.run_sections(secs)
