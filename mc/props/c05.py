"""C05 - circuits survive JSON serialisation unchanged in structure and meaning (E1)."""
import io
import itertools
import json
import os
import shutil
import tempfile

import numpy as np
from mc.ref.linalg import allclose as _close
import sympy

from mc.engine import Section, jdump
from mc.gates import G, W, custom_definition, mk_gate, num

RULE = ("gates: every built-in x a parameter alphabet (ints, floats incl. 1e-07 and 0.30000000000000004, sympy numbers, pi/3, symbols shadowing sympy names, "
        "lambda_, indexed symbols, expressions), custom definitions with 0/1/2 parameters instantiated with numbers, own symbols, other and permuted symbols; "
        "EVERY wrapper chain over {controlled(1), controlled(2), dagger, power(2), power(0.5), exp} up to depth D built through the public methods AND by nesting "
        "the dataclasses directly, over 6 bases; circuits: empty (n=0,1,3), idle qubits, all 2-operation combinations of a sub-alphabet; pipelines: dict->JSON text->dict, "
        "save/load (path, StringIO), circuit sets. Oracle = own structural walker (kind, nesting, control counts, exponent, definition, indices, parameters by the "
        "statement's rules) + library == + free symbols + matrices at two assignments. non-trivial = circuit with a wrapped, custom or symbolic gate")
RULE += ' Also: circuit sets whose members are equal up to the gate tolerance but not identical; histories load -> extend with gates of the original custom definition -> serialise again.'
RULE += ' Round 7: the parsed document handed to circuit_from_dict / circuitset_from_dict is unchanged and can be read a second time.'
RULE += ' Round 6: custom definitions whose formal parameters are indexed symbols / shadow sympy names (x[0], p[10], gamma, S, N, E, lambda_), instantiated with numbers, own formals in both orders, other symbols.'
RULE += ' Round 5: 24 same-named custom definitions with different matrices created, serialised and dropped in one process; exponents 0, 0.0, 1, -1, -0.5, 1/3, -2.0 and 3 controls; empty and singleton circuit sets through files.'
ASSUMPTIONS = ["symbol names are identifiers other than Python keywords; a plain and an indexed symbol never share a base name; symbols carry no assumptions",
               "custom gate names do not collide with built-in names or wrapper markers",
               "a custom definition whose FORMAL parameter is the symbol named I while its matrix also contains the imaginary unit has no text representation (both print as I): outside the alphabet, like keywords"]
BOUNDS = {"quick": {"wrapper_depth": 2, "two_op_subalphabet": 14}, "thorough": {"wrapper_depth": 3, "two_op_subalphabet": 24}}

PARAMS = ["k:pi", "k:E", "k:2*pi", 0.5, -1.25, 3, 1e-07, 0.30000000000000004, "r:1/3", "s:pi/3", "f:0.1", "s:theta", "s:gamma", "s:S", "s:I", "s:E", "s:lambda_", "s:x[3]", "s:y[10]", "s:2*theta+0.1",
          "s:cos(theta)*x[3]", "s:theta/3-gamma", "s:beta*alpha"]
SINGLE = ["RX", "RY", "RZ", "RH", "PHASE", "GPi", "GPi2", "CPHASE", "XX", "YY", "ZZ", "XY", "Delay"]
FIXED = ["X", "Y", "Z", "H", "I", "S", "SX", "T", "CNOT", "CZ", "SWAP", "ISWAP"]


def sym_param(p):
    """like lib.param but maps the shadow names to plain Symbols"""
    from mc.lib import param
    if isinstance(p, str) and p.startswith("k:"):   # sympy constants, exactly
        return {"k:pi": sympy.pi, "k:E": sympy.E, "k:2*pi": 2 * sympy.pi}[p]
    if isinstance(p, str) and p.startswith("s:"):
        txt = p[2:]
        import re
        names = set(re.findall(r"[A-Za-z_][A-Za-z_0-9]*(?:\[[0-9]+\])?", txt))
        loc = {}
        for i, nm in enumerate(sorted(names, key=len, reverse=True)):
            if nm in ("cos", "sin", "pi"):
                continue
            ph = "PH%dQ" % i
            txt = re.sub(r"(?<![A-Za-z_0-9])" + re.escape(nm) + r"(?![A-Za-z_0-9\[])", ph, txt)
            loc[ph] = sympy.Symbol(nm)
        loc["pi"] = sympy.pi
        return sympy.sympify(txt, locals=loc)
    return param(p)


def build_gate(d):
    """gate descriptor -> gate; 'direct': True nests the dataclasses instead of calling the public methods"""
    from orquestra.quantum.circuits import _gates
    from orquestra.quantum import circuits as C
    if "w" in d:
        inner = build_gate(d["of"])
        if d.get("direct"):
            if d["w"] == "controlled":
                return _gates.ControlledGate(inner, d["k"])
            if d["w"] == "dagger":
                return _gates.Dagger(inner)
            if d["w"] == "power":
                return _gates.Power(inner, d["e"])
            return _gates.Exponential(inner)
        return {"controlled": lambda: inner.controlled(d["k"]), "dagger": lambda: inner.dagger, "power": lambda: inner.power(d["e"]), "exp": lambda: inner.exp}[d["w"]]()
    ps = tuple(sym_param(p) for p in d.get("p", []))
    if d["g"] == "named" and d.get("formal"):
        return formal_definition(d["name"], tuple(d["formal"]))(*ps)
    if d["g"] == "named":
        return named_definition(d["name"], len(ps), d.get("variant", 0))(*ps)
    if d["g"].startswith("custom"):
        return custom_definition(d["g"])(*ps)
    ref = getattr(C, d["g"])
    return ref(*ps) if ps or d["g"] in SINGLE + ["U3", "MS"] else ref


_NAMED = {}


def named_definition(name, npar, variant):
    """custom definition with an arbitrary (non-colliding) name; two matrix variants per (name, npar)"""
    from orquestra.quantum import circuits as C
    key = (name, npar, variant)
    if key not in _NAMED:
        a = sympy.Symbol("a")
        if npar == 0:
            M = {0: sympy.Matrix([[0, 1j], [1, 0]]), 1: sympy.Matrix([[1, 0], [0, 1j]]),
                 2: sympy.Matrix([[0, sympy.I], [sympy.exp(sympy.I * sympy.pi / 4), 0]])}[variant]   # entries that are exactly I / contain pi
            _NAMED[key] = C.CustomGateDefinition(name, M, ())
        else:
            M = sympy.Matrix([[sympy.cos(a), -sympy.sin(a)], [sympy.sin(a), sympy.cos(a)]]) if variant == 0 else sympy.Matrix([[1, 0], [0, sympy.exp(sympy.I * a)]])
            _NAMED[key] = C.CustomGateDefinition(name, M, (a,))
    return _NAMED[key]


def formal_definition(name, formal):
    """custom definition whose FORMAL parameters carry the given names (indexed symbols x[0], names shadowing sympy objects, ...); 1 or 2 parameters, not symmetric in them"""
    from orquestra.quantum import circuits as C
    key = (name, formal)
    if key not in _NAMED:
        fs = [sympy.Symbol(n) for n in formal]
        a, b = fs[0], fs[-1]
        M = sympy.Matrix([[sympy.cos(a), -sympy.sin(a) * sympy.exp(sympy.I * b / 2)], [sympy.sin(a) * sympy.exp(-sympy.I * b / 2), sympy.cos(a)]]) if len(fs) == 2 else \
            sympy.Matrix([[1, 0], [0, sympy.exp(sympy.I * a / 3)]])
        _NAMED[key] = C.CustomGateDefinition(name, M, tuple(fs))
    return _NAMED[key]


def build_circuit(cd):
    from orquestra.quantum import circuits as C
    ops = [build_gate(o["gate"])(*o["q"]) for o in cd["ops"]]
    return C.Circuit(ops, n_qubits=cd["n"]) if cd.get("n") else C.Circuit(ops)


def params_equal(a, b):
    """the statement's rule: exact for Python numbers and bare symbols, 1e-12 relative for sympy floats, expressions by value"""
    if isinstance(a, (int, float)) and not isinstance(a, bool):
        try:
            return complex(b) == complex(a)
        except TypeError:
            return False
    if isinstance(a, sympy.Symbol):
        return isinstance(b, sympy.Symbol) and b.name == a.name and b == a
    if isinstance(a, sympy.Basic):
        if not isinstance(b, (sympy.Basic, int, float)):
            return False
        b = sympy.sympify(b)
        if a.free_symbols != b.free_symbols:
            return False
        if not a.free_symbols:
            x, y = complex(a), complex(b)
            return abs(x - y) <= 1e-12 * max(1, abs(x))
        for k in range(2):
            m = {s: 0.37 + 0.51 * k + 0.13 * i for i, s in enumerate(sorted(a.free_symbols, key=str))}
            x, y = complex(a.subs(m)), complex(b.subs(m))
            if abs(x - y) > 1e-10 * max(1, abs(x)):
                return False
        return True
    return a == b


def gates_equal(a, b):
    from orquestra.quantum.circuits import _gates
    if type(a) is not type(b):
        return "gate kind %s became %s" % (type(a).__name__, type(b).__name__)
    if isinstance(a, _gates.ControlledGate):
        if a.num_control_qubits != b.num_control_qubits:
            return "control count %s became %s" % (a.num_control_qubits, b.num_control_qubits)
        return gates_equal(a.wrapped_gate, b.wrapped_gate)
    if isinstance(a, _gates.Power):
        if a.exponent != b.exponent:
            return "exponent %r became %r" % (a.exponent, b.exponent)
        return gates_equal(a.wrapped_gate, b.wrapped_gate)
    if isinstance(a, (_gates.Dagger, _gates.Exponential)):
        return gates_equal(a.wrapped_gate, b.wrapped_gate)
    if a.name != b.name or a.num_qubits != b.num_qubits or bool(a.is_hermitian) != bool(b.is_hermitian):
        return "gate %s/%d became %s/%d" % (a.name, a.num_qubits, b.name, b.num_qubits)
    if len(a.params) != len(b.params) or not all(params_equal(x, y) for x, y in zip(a.params, b.params)):
        return "parameters %s became %s" % (a.params, b.params)
    ca, cb = isinstance(a.matrix_factory, _gates.CustomGateMatrixFactory), isinstance(b.matrix_factory, _gates.CustomGateMatrixFactory)
    if ca != cb:
        return "custom gate became built-in or vice versa"
    if ca:
        da, db = a.matrix_factory.gate_definition, b.matrix_factory.gate_definition
        if da.gate_name != db.gate_name or tuple(da.params_ordering) != tuple(db.params_ordering) or da.matrix.shape != db.matrix.shape:
            return "custom definition header changed"
        if not all(params_equal(sympy.sympify(x), sympy.sympify(y)) for x, y in zip(da.matrix, db.matrix)):
            return "custom definition matrix changed"
    elif a.matrix_factory is not b.matrix_factory:
        return "built-in matrix factory changed"
    return None


def is_trans(g):
    from orquestra.quantum.circuits import _gates
    while hasattr(g, "wrapped_gate"):
        if isinstance(g, _gates.Exponential) or (isinstance(g, _gates.Power) and g.exponent != int(g.exponent)):
            return True
        g = g.wrapped_gate
    return False


def circuits_equal(c, d, check_matrix=True):
    if c.n_qubits != d.n_qubits:
        return "register width %s became %s" % (c.n_qubits, d.n_qubits)
    if len(c.operations) != len(d.operations):
        return "%d operations became %d" % (len(c.operations), len(d.operations))
    for i, (x, y) in enumerate(zip(c.operations, d.operations)):
        if tuple(x.qubit_indices) != tuple(y.qubit_indices):
            return "operation %d: qubit indices %s became %s" % (i, x.qubit_indices, y.qubit_indices)
        bad = gates_equal(x.gate, y.gate)
        if bad:
            return "operation %d: %s" % (i, bad)
        if set(x.free_symbols) != set(y.free_symbols):
            return "operation %d: free symbols %s became %s" % (i, x.free_symbols, y.free_symbols)
        if check_matrix and x.gate.num_qubits <= 3 and not is_trans(x.gate):
            syms = sorted(set(x.free_symbols), key=str)
            for k in range(2):
                m = {s: 0.37 + 0.51 * k + 0.13 * j for j, s in enumerate(syms)}
                A, B = num(x.gate.matrix, m), num(y.gate.matrix, m)
                if A.shape != B.shape or not _close(A, B, atol=1e-10):
                    return "operation %d: matrices differ at %s" % (i, m)
    if list(c.free_symbols) != list(d.free_symbols) and set(c.free_symbols) != set(d.free_symbols):
        return "circuit free symbols changed"
    return None


def exactly_representable(c):
    def ok(p):
        if isinstance(p, (int, float)):
            return True
        if isinstance(p, sympy.Basic):
            return not p.atoms(sympy.Float)
        return True
    return all(ok(p) for op in c.operations for p in op.params)


def roundtrip_case(case):
    """{'ops': [...], 'n': n|None, 'pipe': 'json'|'file'|'stringio'}"""
    from orquestra.quantum import circuits as C
    c = build_circuit(case)
    pipe = case.get("pipe", "json")
    if pipe == "json":
        doc = json.loads(json.dumps(C.to_dict(c)))
        text_before = json.dumps(doc, sort_keys=True)
        d = C.circuit_from_dict(doc)
        # the parsed document is the caller's: reading it does not consume it - it serialises as before and can be read again
        if json.dumps(doc, sort_keys=True) != text_before:
            return {"ok": False, "msg": "circuit_from_dict modified the dictionary it was given", "sig": "roundtrip:document-consumed"}
        d_again = C.circuit_from_dict(doc)
        if circuits_equal(d, d_again, False) or d_again.n_qubits != d.n_qubits:
            return {"ok": False, "msg": "reading the same dictionary a second time gives another circuit: " + str(circuits_equal(d, d_again, False)), "sig": "roundtrip:second-read"}
        own = C.to_dict(c)
        C.circuit_from_dict(own)
        if json.dumps(own, sort_keys=True, default=str) != json.dumps(C.to_dict(c), sort_keys=True, default=str):
            return {"ok": False, "msg": "circuit_from_dict modified the result of to_dict it was given", "sig": "roundtrip:document-consumed"}
    elif pipe == "stringio":
        buf = io.StringIO()
        C.save_circuit(c, buf)
        buf.seek(0)
        d = C.load_circuit(buf)
    else:
        wd = tempfile.mkdtemp(prefix="c05.", dir="/dev/shm" if os.path.isdir("/dev/shm") else "/var/tmp")
        try:
            p = os.path.join(wd, "c.json")
            C.save_circuit(c, p)
            d = C.load_circuit(p)
            with open(p) as f:
                d2 = C.load_circuit(f)
            if circuits_equal(c, d2, False):
                return {"ok": False, "msg": "load from an open file: " + circuits_equal(c, d2, False), "sig": "roundtrip:openfile"}
        finally:
            shutil.rmtree(wd, ignore_errors=True)
    bad = circuits_equal(c, d)
    nt = any("w" in o["gate"] or o["gate"]["g"].startswith(("custom", "named")) or any(isinstance(p, str) for p in o["gate"].get("p", [])) for o in case["ops"])
    if bad:
        return {"ok": False, "msg": "after the round trip (%s): %s" % (pipe, bad), "expected": str(c)[:300], "observed": str(d)[:300], "sig": "roundtrip:" + bad.split(":")[0].split(" ")[0]}
    if exactly_representable(c) and not (d == c and c == d):
        return {"ok": False, "msg": "deserialised circuit does not compare equal to the original although all parameters are exactly representable", "expected": str(c)[:300], "observed": str(d)[:300],
                "sig": "roundtrip:eq"}
    return {"ok": True, "nt": nt, "ops": 1, "out": pipe}


def set_case(case):
    """{'circuits': [circuit descriptors], 'pipe'}"""
    from orquestra.quantum import circuits as C
    cs = [build_circuit(cd) for cd in case["circuits"]]
    if case.get("pipe") == "stringio":
        buf = io.StringIO()
        C.save_circuitset(cs, buf)
        buf.seek(0)
        ds = C.load_circuitset(buf)
        wd = tempfile.mkdtemp(prefix="c05s.", dir="/dev/shm" if os.path.isdir("/dev/shm") else "/var/tmp")
        try:
            p = os.path.join(wd, "cs.json")
            C.save_circuitset(cs, p)
            ds_path = C.load_circuitset(p)
        finally:
            shutil.rmtree(wd, ignore_errors=True)
        if len(ds_path) != len(cs) or any(circuits_equal(c, d, False) for c, d in zip(cs, ds_path)):
            return {"ok": False, "msg": "circuit set saved to / loaded from a path differs", "sig": "set:path"}
    else:
        doc_s = json.loads(json.dumps(C.to_dict(cs)))
        text_s = json.dumps(doc_s, sort_keys=True)
        ds = C.circuitset_from_dict(doc_s)
        if json.dumps(doc_s, sort_keys=True) != text_s or [str(x) for x in C.circuitset_from_dict(doc_s)] != [str(x) for x in ds]:
            return {"ok": False, "msg": "circuitset_from_dict consumed / modified the dictionary it was given (a second read differs)", "sig": "set:document-consumed"}
    if len(ds) != len(cs):
        return {"ok": False, "msg": "circuit set of %d came back with %d circuits" % (len(cs), len(ds)), "sig": "set:length"}
    for i, (c, d) in enumerate(zip(cs, ds)):
        bad = circuits_equal(c, d)
        if bad:
            return {"ok": False, "msg": "circuit %d of the set: %s" % (i, bad), "expected": str(c)[:300], "observed": str(d)[:300], "sig": "set:" + bad.split(":")[0].split(" ")[0]}
    return {"ok": True, "nt": True, "ops": len(cs), "out": "set%d" % len(cs)}


def history_case(case):
    """{'entry': matrix entry kind, 'order': 'loaded+orig'|'orig+loaded'}: a circuit with a custom gate goes through the text format, comes back, is extended with
    gates made from the ORIGINAL in-memory definition (same name, matrix equal up to the printed precision) and is serialised again"""
    from orquestra.quantum import circuits as C
    x = {"sqrt": 2 ** -0.5, "third": 1 / 3, "exact": sympy.sqrt(2) / 2, "cos": float(np.cos(0.3))}[case["entry"]]
    M = sympy.Matrix([[x, x], [x, -x]]) if case["entry"] != "third" else sympy.Matrix([[1, 0], [0, sympy.exp(sympy.I * x)]])
    d = C.CustomGateDefinition("MyH", M, ())
    c1 = C.Circuit([d()(0), C.CNOT(0, 1), d()(1)])
    back = C.circuit_from_dict(json.loads(json.dumps(C.to_dict(c1))))
    bad = circuits_equal(c1, back)
    if bad:
        return {"ok": False, "msg": "first round trip: " + bad, "sig": "history:first"}
    extra = C.Circuit([d()(2), d().controlled(1)(0, 2)])
    c2 = back + extra if case["order"] == "loaded+orig" else extra + back
    exp = c1 + extra if case["order"] == "loaded+orig" else extra + c1
    try:
        again = C.circuit_from_dict(json.loads(json.dumps(C.to_dict(c2))))
    except Exception as e:  # noqa: BLE001
        return {"ok": False, "msg": "a loaded circuit extended with gates of the original definition cannot be serialised again: %s: %s" % (type(e).__name__, e), "sig": "history:second-refused"}
    bad = circuits_equal(exp, again)
    if bad:
        return {"ok": False, "msg": "second round trip: " + bad, "sig": "history:second"}
    return {"ok": True, "nt": True, "ops": 2, "out": case["entry"]}


def fresh_case(case):
    """{'npar': 0|1, 'rounds': r, 'keep': bool}: r custom definitions with ONE name and shape but different matrices are created, serialised and (unless keep) dropped one
    after the other in one process - object addresses and names repeat, the matrices do not: each serialised form must carry the matrix of the definition it was made from"""
    import gc
    from orquestra.quantum import circuits as C
    a = sympy.Symbol("a")
    kept = []

    def one(i):
        ph = sympy.Rational(i + 1, 7)
        M = sympy.Matrix([[1, 0], [0, sympy.exp(sympy.I * ph)]]) if case["npar"] == 0 else sympy.Matrix([[sympy.cos(a), -sympy.sin(a) * (i + 2)], [sympy.sin(a), sympy.cos(a) + i]])
        d = C.CustomGateDefinition("fresh", M, () if case["npar"] == 0 else (a,))
        g = d() if case["npar"] == 0 else d(0.25)
        c = C.Circuit([g(0), g.controlled(1)(1, 0)] if i % 2 else [g(1)])
        text = json.dumps(C.to_dict(c))
        back = C.circuit_from_dict(json.loads(text))
        if case["keep"]:
            kept.append((d, c))
        return circuits_equal(c, back), text

    seen = set()
    for i in range(case["rounds"]):
        bad, text = one(i)
        gc.collect()
        seen.add(text)
        if bad:
            return {"ok": False, "msg": "definition %d of the run (same name and shape as the earlier ones, other matrix): after the round trip %s" % (i, bad), "sig": "fresh:" + bad.split(":")[0].split(" ")[0], "ops": i + 1}
    if len(seen) < case["rounds"] // 2:
        return {"ok": False, "msg": "different definitions were serialised to the same text", "sig": "fresh:text", "ops": case["rounds"]}
    return {"ok": True, "nt": True, "ops": case["rounds"], "out": "fresh%d" % case["npar"]}


FUNCS = {"fresh_definitions": fresh_case, "histories": history_case, "gates": roundtrip_case, "wrappers": roundtrip_case, "circuits": roundtrip_case, "circuit_sets": set_case}

WRAPS = [("controlled", {"k": 1}), ("controlled", {"k": 2}), ("dagger", {}), ("power", {"e": 2}), ("power", {"e": 0.5}), ("exp", {}), ("power", {"e": 0}), ("power", {"e": -1})]
# more exponent / control values, used in depth-1 chains and as the inner wrapper of depth-2 chains
WRAPS_EXTRA = [("power", {"e": 0.0}), ("power", {"e": 1}), ("power", {"e": -0.5}), ("power", {"e": 1 / 3}), ("power", {"e": 3}), ("power", {"e": -2.0}), ("controlled", {"k": 3})]


def wrapper_chains(base, depth, direct):
    out = []
    for dpt in range(1, depth + 1):
        for combo in itertools.product(WRAPS, repeat=dpt):
            g = base
            for w, kw in combo:
                g = {"w": w, "of": g, **kw, **({"direct": True} if direct else {})}
            out.append(g)
    for w, kw in WRAPS_EXTRA:
        inner = {"w": w, "of": base, **kw, **({"direct": True} if direct else {})}
        out.append(inner)
        for w2, kw2 in WRAPS[:3]:
            out.append({"w": w2, "of": inner, **kw2, **({"direct": True} if direct else {})})
    return out


def custom_defs_extra():
    """a second definition with the same symbol names but another matrix, and one named like nothing built in"""
    return None


def run(run):
    thorough = run.tier == "thorough"
    # single gates with the parameter alphabet
    gates = [G(n) for n in FIXED]
    for n in SINGLE:
        gates += [G(n, p) for p in (PARAMS if n in ("RX", "CPHASE", "Delay") or thorough else PARAMS[::3])]
    tri = [(0.5, -1.25, 3), ("s:theta", "s:gamma", "s:lambda_"), ("s:x[3]", 0.5, "s:2*theta+0.1"), ("s:S", "s:I", "s:E"), (1e-07, "r:1/3", "s:pi/3")]
    gates += [G("U3", *t) for t in tri] + [G("MS", a, b) for a, b in (("s:theta", 0.5), (0.30000000000000004, "s:y[10]"), ("s:gamma", "s:gamma"))]
    cust = [G("custom1"), G("custom2"), G("custom3")]
    cp = [0.5, "s:alpha", "s:beta", "s:gamma", "s:x[3]", "s:2*alpha+0.1", "s:S"]
    cust += [G("custom1p", a, b) for a in cp for b in cp] + [G("custom2p", a, b) for a, b in ((0.3, 0.7), ("s:beta", "s:alpha"), ("s:theta", "s:theta"), ("s:alpha", 1))]
    cust += [G("custom1q", p) for p in (0.5, "s:gamma", "s:theta", "s:x[3]", "s:gamma*2")]
    gates += cust
    # custom gate names: differing from built-ins/markers only by letter case, equal to other module-level names of the library, unusual identifiers
    NAMES = ["sx", "rx", "Rx", "u3", "cnot", "x", "Swap", "ms", "control", "dagger", "exponential", "power", "Union", "Callable", "GateRef", "GatePrototype", "_gates", "_matrices",
             "make_parametric_gate_prototype", "builtin_gate_by_name", "my_gate_2", "lambda_gate", "G", "sympy", "Gate"]
    gates += [{"g": "named", "name": "exact_constants", "variant": 2}]
    # definitions whose FORMAL parameters are indexed symbols / shadow sympy names / sort unnaturally, instantiated with numbers, their own formals (both orders), other symbols
    for fi, formal in enumerate((["x[0]", "x[1]"], ["p[10]", "gamma"], ["lambda_", "S"], ["x[0]", "y[0]"], ["beta", "N"], ["theta_10", "theta_2"], ["x[3]"], ["E"], ["x[12]", "x[2]"])):
        insts = [[0.5, -1.25], ["s:" + formal[0], "s:" + formal[-1]], ["s:" + formal[-1], "s:" + formal[0]], ["s:theta", "s:2*%s+0.1" % formal[0]], ["s:x[3]", 0.25]] if len(formal) == 2 else \
                [[0.5], ["s:" + formal[0]], ["s:theta"], ["s:x[7]"], ["s:2*%s" % formal[0]]]
        gates += [{"g": "named", "name": "formal%d" % fi, "formal": formal, "p": ps_} for ps_ in insts]
    gates += [{"g": "named", "name": nm} for nm in NAMES] + [{"g": "named", "name": nm, "p": [p]} for nm in NAMES for p in (0.5, "s:theta")]

    def place(g):
        from mc.gates import arity
        k = arity(g)
        return list(range(k))[::-1] if k > 1 else [2]
    cases = []
    for g in gates:
        for pipe in ("json", "stringio") + (("file",) if (thorough or "custom" in g["g"]) else ()):
            if g["g"] == "named" and pipe != "json":
                continue
            cases.append({"ops": [{"gate": g, "q": place(g)}], "n": None, "pipe": pipe})
    secs = [Section("gates", cases, roundtrip_case, horizon=120, desc="every built-in and custom gate x parameter alphabet, three pipelines")]
    bases = [G("T"), G("X"), G("RX", 0.3), G("CNOT"), G("custom1"), G("custom2p", 0.3, 0.7)]
    depth = 3 if thorough else 2
    wc = []
    for b in bases:
        for direct in (False, True):
            for g in wrapper_chains(b, depth, direct):
                wc.append({"ops": [{"gate": g, "q": list(range(10))}], "n": None, "pipe": "json"})
    # symbolic bases under controlled/dagger only (power/exp refuse symbols)
    for b in (G("RX", "s:theta"), G("custom2p", "s:beta", "s:x[3]"), G("U3", "s:theta", 0.5, "s:gamma")):
        for combo in itertools.product(WRAPS[:3], repeat=2):
            g = b
            for w, kw in combo:
                g = {"w": w, "of": g, **kw}
            wc.append({"ops": [{"gate": g, "q": list(range(10))}], "n": None, "pipe": "json"})
    for c in wc:
        from mc.gates import arity
        c["ops"][0]["q"] = list(range(arity(c["ops"][0]["gate"])))
    secs.append(Section("wrappers", wc, roundtrip_case, horizon=120, desc="every wrapper chain up to depth %d, via public methods and via direct dataclass nesting" % depth))
    sub = [G("X"), G("RX", "s:theta"), G("RX", 0.5), G("U3", "s:theta", "s:gamma", 0.5), G("CNOT"), G("custom1"), G("custom2p", "s:beta", "s:alpha"), G("custom2p", 0.3, 0.7),
           W("controlled", G("custom1"), k=1), W("dagger", G("custom2p", 0.3, "s:theta")), W("power", G("T"), e=0.5), W("exp", G("RZ", 0.3)), W("dagger", W("power", G("T"), e=2)),
           W("controlled", W("dagger", G("RY", "s:x[3]")), k=2)]
    if thorough:
        sub += [G("custom1q", "s:gamma"), G("custom1p", "s:beta", 0.5), W("power", W("controlled", G("custom1"), k=1), e=3), G("MS", "s:theta", 0.1), G("Delay", 2.5), G("XY", "s:y[10]"),
                W("exp", W("dagger", G("custom1"))), W("controlled", W("exp", G("X")), k=1), G("GPi2", "r:1/3"), G("ISWAP")]
    from mc.gates import arity
    cc = [{"ops": [], "n": n, "pipe": p} for n in (None, 1, 3) for p in ("json", "stringio", "file")]
    for a in sub:
        cc.append({"ops": [{"gate": a, "q": [q + 2 for q in range(arity(a))]}], "n": 7, "pipe": "json"})
        for b in sub:
            cc.append({"ops": [{"gate": a, "q": list(range(arity(a)))}, {"gate": b, "q": [q + 1 for q in range(arity(b))][::-1]}], "n": None, "pipe": "json"})
    # long circuits and large / multi-digit qubit indices (size thresholds of containers, one-byte and one-word index fields, text widths), many symbols x[0]..x[11] next to x10
    gs = [G("X"), G("RX", "s:x[10]"), G("RX", "s:x[2]"), G("RZ", 0.1), G("custom1"), G("U3", "s:x[1]", "s:x[11]", "s:x10"), W("controlled", G("RY", "s:theta"), k=1), G("CNOT"), W("dagger", G("T")),
          G("custom2p", "s:alpha", 0.25), W("power", G("S"), e=3), G("CPHASE", "s:x[0]")]
    for L_, stride, width in ((70, 1, None), (260, 3, None), (64, 997, None), (65, 64, 4200), (12, 1, 1024)):
        ops_ = []
        for i in range(L_):
            g_ = gs[i % len(gs)]
            base_q = (i * stride) % (width or 4096)
            ops_.append({"gate": g_, "q": [base_q + 2 * j_ for j_ in range(arity(g_))][::-1 if i % 2 else 1]})
        for pipe in ("json", "stringio", "file"):
            cc.append({"ops": ops_, "n": width, "pipe": pipe})
    secs.append(Section("circuits", cc, roundtrip_case, horizon=120, desc="empty circuits, idle qubits, all 2-operation combinations of a %d-gate sub-alphabet; circuits of 64-260 operations on qubit indices up to 4200" % len(sub)))
    sets = [{"circuits": [], "pipe": "json"}, {"circuits": [], "pipe": "stringio"}, {"circuits": [{"ops": [], "n": 2}], "pipe": "stringio"}, {"circuits": [{"ops": [], "n": 1}] * 3, "pipe": "json"}]
    one = lambda g: {"ops": [{"gate": g, "q": list(range(arity(g)))}], "n": None}  # noqa: E731
    for a, b in itertools.product(sub[:10], repeat=2):
        sets.append({"circuits": [one(a), {"ops": [], "n": 2}, one(b)], "pipe": "json"})
    sets += [{"circuits": [one(g) for g in sub], "pipe": "stringio"}]
    # same custom gate name defined differently in different circuits of one set (each circuit carries its own definitions)
    for nm in ("shared", "sx"):
        for p in ([], [0.5], ["s:theta"]):
            a = {"g": "named", "name": nm, "variant": 0, **({"p": p} if p else {})}
            b = {"g": "named", "name": nm, "variant": 1, **({"p": p} if p else {})}
            sets += [{"circuits": [one(a), one(b)], "pipe": "json"}, {"circuits": [one(b), one(G("X")), one(a), one(b)], "pipe": "stringio"}]
    # members that are equal up to the comparison tolerance of gates but NOT identical (finite-difference style), and identical members repeated
    for g1, g2 in ((G("RX", 0.3), G("RX", 0.3 + 1e-9)), (G("U3", 0.1, 0.2, 0.3), G("U3", 0.1, 0.2, 0.3 + 5e-10)), (G("CPHASE", 1e-9), G("CPHASE", 2e-9)), (G("custom2p", 0.3, 0.7), G("custom2p", 0.3, 0.7 - 1e-9)),
                   (W("controlled", G("RZ", 1.0), k=1), W("controlled", G("RZ", 1.0 + 2e-9), k=1))):
        for pipe in ("json", "stringio"):
            sets += [{"circuits": [one(g1), one(g2)], "pipe": pipe}, {"circuits": [one(g2), one(g1), one(g1), one(g2)], "pipe": pipe}]
    secs.append(Section("histories", [{"entry": e, "order": o} for e in ("sqrt", "third", "exact", "cos") for o in ("loaded+orig", "orig+loaded")], history_case, horizon=120,
                        desc="load a circuit with a custom gate, extend it with gates of the original definition, serialise again"))
    secs.append(Section("fresh_definitions", [{"npar": k, "rounds": 24, "keep": keep} for k in (0, 1) for keep in (False, True)], fresh_case, horizon=300, chunk=1,
                        desc="24 same-named custom definitions with different matrices created, serialised and dropped (or kept) one after the other in one process"))
    secs.append(Section("circuit_sets", sets, set_case, horizon=120, desc="lists of circuits through to_dict/JSON/circuitset_from_dict and save_/load_circuitset"))
    run.run_sections(secs)
