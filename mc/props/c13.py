"""C13 - splitting, batching and recombining shots never loses or invents a shot (E1 integer laws + E3 over RNG answers)."""
import itertools
from collections import Counter
from fractions import Fraction as F

import numpy as np

from mc.engine import Section
from mc import seams

RULE = ("expand/combine: every list of <=3 sample counts in 1..M x every maximum in 1..M+1; batches: every length <=7 x batch size 1..8 x sample "
        "lists over {1,5,9}; scale_and_discretize: every weight list of length <=4 over {1,2,3,5,0.5} x totals 0..16; representing "
        "distributions: every distribution on <=2 bits with integer weights 0..W x N in 1..9 x EVERY answer of the scripted np.random.choice "
        "within the deviation bound. non-trivial = input actually needs splitting / a remainder / a random correction; distinct = canonical input")
RULE += ' Round 6: expand_sample_sizes called again after the caller consumed its results in place; scale_and_discretize with weights as numpy integer / float arrays, lists of numpy integers, big Python ints.'
RULE += ' Round 5: sample counts as numpy integers of 8-64 bits at the top of their range, tuples, large Python ints.'
ASSUMPTIONS = ["np.random.choice is the only randomness used (other entry points are trapped)", "the scripted choice enforces numpy's own argument checks (p >= 0, sum p = 1 within 1e-8)"]
BOUNDS = {"quick": {"counts": "1..24", "max": "1..25", "weights": "0..5", "N": "1..12 (two-level family on 3 bits: 7 values, <=2 deviations)", "deviations": "all answers on <=2 bits"},
          "thorough": {"counts": "1..36", "max": "1..37", "weights": "0..5 on <=2 bits, 0..2 on 3 bits (all 6560 distributions)", "N": "1..16 (two-level family: 1..16, <=3 deviations)", "deviations": "all answers"}}


def expand_case(case):
    """{'max': m, 'first': n0, 'M': M}: all lists [n0], [n0,n1], [n0,n1,n2] with n_i in 1..M"""
    from orquestra.quantum.circuits import expand_sample_sizes, combine_measurement_counts, combine_bitstrings
    m, n0, M = case["max"], case["first"], case["M"]
    k = 0
    nt = False
    lists = [[n0]] + [[n0, a] for a in range(1, M + 1)] + [[n0, a, b] for a in range(1, M + 1) for b in range(1, M + 1, 1 if M <= 12 else 2)]
    for ns in lists:
        circs = ["c%d" % i for i in range(len(ns))]
        new_c, new_n, mult = expand_sample_sizes(circs, list(ns), m)
        new_c, new_n, mult = list(new_c), list(new_n), list(mult)
        k += 1
        bad = None
        if len(mult) != len(ns) or len(new_c) != len(new_n) or sum(mult) != len(new_c):
            bad = "lengths of the three returned sequences are inconsistent"
        else:
            pos = 0
            for i, n in enumerate(ns):
                chunk_c, chunk_n = new_c[pos:pos + mult[i]], new_n[pos:pos + mult[i]]
                pos += mult[i]
                if chunk_c != [circs[i]] * mult[i]:
                    bad = "copies of circuit %d are not contiguous/in order" % i
                elif any((not 1 <= x <= m) or int(x) != x for x in chunk_n):
                    bad = "a copy of circuit %d has a sample count outside [1, max]" % i
                elif sum(chunk_n) != n:
                    bad = "copies of circuit %d sum to %s instead of %d" % (i, sum(chunk_n), n)
                if bad:
                    break
        if bad:
            return {"ok": False, "msg": "expand_sample_sizes(%s, max=%d): %s" % (ns, m, bad), "observed": str((new_c, new_n, mult)), "sig": "expand", "ops": k}
        # reference runner: copy j of circuit i returns {bitstring_i: n_ij}; equal results share ONE dict object (memoising runner)
        memo = {}
        per_copy = [memo.setdefault((c, n), {"1" * (int(c[1:]) + 1): n}) for c, n in zip(new_c, new_n)]
        snapshot = [dict(d) for d in per_copy]
        for rep in range(2):
            comb = combine_measurement_counts(per_copy, mult)
            k += 1
            if [dict(d) for d in comb] != [{"1" * (i + 1): n} for i, n in enumerate(ns)]:
                return {"ok": False, "msg": "combine_measurement_counts (call %d) does not give the requested totals for %s max %d" % (rep + 1, ns, m),
                        "expected": str([{"1" * (i + 1): n} for i, n in enumerate(ns)]), "observed": str(comb), "sig": "combine:counts", "ops": k}
            if [dict(d) for d in per_copy] != snapshot:
                return {"ok": False, "msg": "combine_measurement_counts modified the per-copy results", "expected": str(snapshot), "observed": str(per_copy), "sig": "combine:mutated", "ops": k}
        per_copy_b = [["1" * (int(c[1:]) + 1)] * n for c, n in zip(new_c, new_n)]
        combb = combine_bitstrings(per_copy_b, mult)
        k += 1
        if [list(x) for x in combb] != [["1" * (i + 1)] * n for i, n in enumerate(ns)]:
            return {"ok": False, "msg": "combine_bitstrings does not give the requested totals for %s max %d" % (ns, m), "observed": str(combb)[:300], "sig": "combine:bitstrings", "ops": k}
        if any(n > m for n in ns):
            nt = True
    # mismatched lengths
    for f, arg in ((combine_measurement_counts, [{"0": 1}, {"0": 2}]), (combine_bitstrings, [["0"], ["0", "0"]])):
        for mult in ([1], [1, 2], [3]):
            try:
                f(arg, mult)
            except ValueError:
                continue
            return {"ok": False, "msg": "%s accepted %d results for multiplicities %s" % (f.__name__, len(arg), mult), "sig": "combine:length", "ops": k}
    return {"ok": True, "nt": nt, "ops": k, "out": "max%d" % m}


def expand_kinds_case(case):
    """{'dtype': numpy dtype name | 'py' | 'tuple', 'ns': [...], 'max': m}: sample counts handed over as numpy arrays of narrow integer types, tuples and large Python ints -
    the copies still have counts in [1, max] that sum to the request (in exact integer arithmetic), in order"""
    from orquestra.quantum.circuits import expand_sample_sizes
    ns, m, dt = [int(x) for x in case["ns"]], int(case["max"]), case["dtype"]
    arg = list(ns) if dt == "py" else tuple(ns) if dt == "tuple" else np.array(ns, dtype=dt)
    marg = m if dt in ("py", "tuple") or not case.get("max_typed") else np.dtype(dt).type(m)
    circs = ["c%d" % i for i in range(len(ns))]
    new_c, new_n, mult = expand_sample_sizes(circs, arg, marg)
    new_c, new_n, mult = list(new_c), [int(x) for x in new_n], [int(x) for x in mult]
    if len(mult) != len(ns) or len(new_c) != len(new_n) or sum(mult) != len(new_c):
        return {"ok": False, "msg": "expand_sample_sizes(%s as %s, max=%d): lengths of the returned sequences are inconsistent" % (ns, dt, m), "observed": str((new_c[:8], new_n[:8], mult)), "sig": "expand:kinds"}
    pos = 0
    for i, n in enumerate(ns):
        chunk_c, chunk_n = new_c[pos:pos + mult[i]], new_n[pos:pos + mult[i]]
        pos += mult[i]
        if chunk_c != [circs[i]] * mult[i] or any(not 1 <= x <= m for x in chunk_n) or sum(chunk_n) != n:
            return {"ok": False, "msg": "expand_sample_sizes(%s as %s, max=%d): copies of circuit %d are %s (sum %d, requested %d)" % (ns, dt, m, i, chunk_n[:8], sum(chunk_n), n), "sig": "expand:kinds"}
    if [int(x) for x in (arg if dt != "py" else ns)] != ns:
        return {"ok": False, "msg": "expand_sample_sizes modified the sample counts it was given", "sig": "expand:kinds-mutated"}
    return {"ok": True, "nt": any(n > m for n in ns), "ops": 1, "out": dt}


def expand_history_case(case):
    """{'ns': [...], 'max': m, 'mut': how the caller consumes the result}: expand_sample_sizes is called, the caller CONSUMES the returned sequences in place (pops jobs off them,
    zeroes entries, extends them), and calls again with equal arguments - and once more with a slightly different request: every call returns the full, correct expansion"""
    from orquestra.quantum.circuits import expand_sample_sizes
    ns, m = case["ns"], case["max"]
    circs = ["c%d" % i for i in range(len(ns))]

    def judge(ns_, res, tag):
        new_c, new_n, mult = [list(x) for x in res]
        if len(mult) != len(ns_) or len(new_c) != len(new_n) or sum(mult) != len(new_c):
            return "%s: lengths of the returned sequences are inconsistent: %s" % (tag, (new_c, new_n, mult))
        pos = 0
        for i, n in enumerate(ns_):
            chunk_c, chunk_n = new_c[pos:pos + mult[i]], new_n[pos:pos + mult[i]]
            pos += mult[i]
            if chunk_c != ["c%d" % i] * mult[i] or any(not 1 <= x <= m for x in chunk_n) or sum(chunk_n) != n:
                return "%s: copies of circuit %d are %s on %s (requested %d, max %d)" % (tag, i, chunk_n, chunk_c, n, m)
        return None
    k = 0
    for rnd in range(3):
        res = expand_sample_sizes(list(circs), list(ns), m)
        k += 1
        bad = judge(ns, res, "call %d" % (rnd + 1))
        if bad:
            return {"ok": False, "msg": "expand_sample_sizes(%s, max=%d) after the caller consumed earlier results in place (%s): %s" % (ns, m, case["mut"], bad), "sig": "expand:history", "ops": k}
        for seq in res:
            if isinstance(seq, list):
                if case["mut"] == "pop":
                    while seq:
                        seq.pop()
                elif case["mut"] == "zero":
                    for j in range(len(seq)):
                        seq[j] = 0 if not isinstance(seq[j], str) else "gone"
                elif case["mut"] == "extend":
                    seq.extend(seq[:1] * 2)
                elif case["mut"] == "reverse":
                    seq.reverse()
    ns2 = [n + 1 for n in ns]
    bad = judge(ns2, expand_sample_sizes(list(circs), list(ns2), m), "call with counts + 1")
    if bad:
        return {"ok": False, "msg": bad, "sig": "expand:history", "ops": k}
    return {"ok": True, "nt": any(n > m for n in ns), "ops": k + 1, "out": case["mut"]}


def scale_kinds_case(case):
    """{'weights': [...], 'total': t, 'kind': 'int64'|'uint32'|'float32'|'tuple'|'fraction'|'pyint'}: the weights handed over as numpy arrays of integer / float types, tuples, big Python
    ints: integers summing exactly to the total, each within one of its exact proportional share (an exception is a failure too - these are ordinary weights)"""
    from orquestra.quantum.utils import scale_and_discretize
    w, total, kind = case["weights"], case["total"], case["kind"]
    arg = {"int64": lambda: np.array(w, dtype=np.int64), "uint32": lambda: np.array(w, dtype=np.uint32), "int32": lambda: np.array(w, dtype=np.int32), "float32": lambda: np.array(w, dtype=np.float32),
           "float64": lambda: np.array(w, dtype=float), "tuple": lambda: tuple(w), "pyint": lambda: [int(x) for x in w], "np-list": lambda: [np.int64(x) for x in w]}[kind]()
    ttl = np.int64(total) if case.get("total_np") else total
    exact = [F(float(np.float32(x))) if kind == "float32" else F(x) for x in w]
    try:
        got = scale_and_discretize(arg, ttl)
    except Exception as e:  # noqa: BLE001
        sig = "scale:kinds-raises"
        if isinstance(e, AssertionError) and ((kind == "float32" and total > 2 ** 24) or total > 2 ** 53):
            sig = "scale:refuses-beyond-2^24-float32" if kind == "float32" and total <= 2 ** 53 else "scale:refuses-beyond-2^53"     # the library's own closing assertion (finding D27: float arithmetic)
        return {"ok": False, "msg": "scale_and_discretize(%s as %s, total=%s) raises %s: %s" % (str(w)[:80], kind, total, type(e).__name__, str(e)[:80]), "sig": sig}
    S = sum(exact)
    bad = None
    if len(got) != len(w) or any(int(g) != g or isinstance(g, bool) for g in got):
        bad = "not a list of integers of the input length: %s" % (list(got)[:8],)
    elif sum(int(g) for g in got) != total:
        bad = "sum is off by %d" % (sum(int(g) for g in got) - total)
    else:
        worst = max(abs(F(int(g)) - x * total / S) for g, x in zip(got, exact))
        if worst >= 1:
            bad = "an entry is %s away from its proportional share: %s" % (float(worst), list(got)[:8])
    if bad:
        return {"ok": False, "msg": "scale_and_discretize(%s as %s, total=%d): %s" % (str(w)[:80], kind, total, bad), "sig": "scale:kinds"}
    return {"ok": True, "nt": len(set(w)) > 1, "out": kind}


def batch_case(case):
    """{'len': L, 'size': b}: every sample list over {1,5,9} of length L; chunks concatenate to input, sizes, sample numbers"""
    from orquestra.quantum.circuits import split_into_batches
    Lc, b = case["len"], case["size"]
    k = 0
    # what a "circuit" is to this function is the caller's business (the docstring allows any circuit type): names, and objects that happen to be FALSY (an empty gate tuple, an SDK
    # circuit whose __len__ is 0, the number 0, None) - at every position, so also exactly at a batch boundary
    class Empty:
        def __len__(self):
            return 0
    falsy = [(), 0, "", Empty(), None, [], 0.0]
    for ns, kind in [(ns_, "names") for ns_ in itertools.product((1, 5, 9), repeat=Lc)] + [(tuple([5] * Lc), "falsy"), (tuple([1, 9] * Lc)[:Lc], "mixed")]:
        circs = ["c%d" % i for i in range(Lc)] if kind == "names" else [falsy[i % len(falsy)] for i in range(Lc)] if kind == "falsy" else [("c%d" % i if i % 2 else falsy[i % len(falsy)]) for i in range(Lc)]
        out = [(list(c), n) for c, n in split_into_batches(circs, list(ns), b)]
        k += 1
        flat = [c for cs, _ in out for c in cs]
        bad = None
        if len(flat) != len(circs) or any(x is not y for x, y in zip(flat, circs)):
            bad = "batches do not cover every circuit exactly once in order"
        elif any(len(cs) > b or len(cs) == 0 for cs, _ in out):
            bad = "a batch is empty or larger than the maximum"
        else:
            pos = 0
            for cs, n in out:
                if n < max(ns[pos:pos + len(cs)]):
                    bad = "a batch requests fewer samples than one of its circuits asked for"
                pos += len(cs)
            if not bad and any(len(cs) != b for cs, _ in out[:-1]):
                bad = None  # the statement does not require full batches
        if bad:
            return {"ok": False, "msg": "split_into_batches(%d circuits, %s, %d): %s" % (Lc, ns, b, bad), "observed": str(out), "sig": "batches", "ops": k}
    for circs, ns, bb in ((["a", "b"], [1], 2), (["a"], [1, 2], 2), (["a", "b"], [1, 2], 0), (["a", "b"], [1, 2], -1)):
        try:
            list(split_into_batches(circs, ns, bb))
        except ValueError:
            continue
        return {"ok": False, "msg": "split_into_batches accepted invalid arguments %s %s %s" % (circs, ns, bb), "sig": "batches:validation", "ops": k}
    return {"ok": True, "nt": Lc > b, "ops": k, "out": "b%d" % b}


def pipeline_case(case):
    """{'ns': [...], 'max': m, 'batch': b}: expand -> split -> reference runner -> combine gives the requested totals per circuit"""
    from orquestra.quantum.circuits import expand_sample_sizes, combine_measurement_counts, split_into_batches
    ns, m, b = case["ns"], case["max"], case["batch"]
    circs = ["c%d" % i for i in range(len(ns))]
    new_c, new_n, mult = expand_sample_sizes(circs, ns, m)
    results = []
    for cs, n in split_into_batches(list(new_c), list(new_n), b):
        if len(cs) > b:
            return {"ok": False, "msg": "batch too large", "sig": "pipeline:batch"}
        for c in cs:
            results.append((c, n))
    # the reference runner returns exactly what each copy asked for (it may be given more by its batch)
    if [c for c, _ in results] != list(new_c) or any(n < want for (_, n), want in zip(results, new_n)):
        return {"ok": False, "msg": "batches lost/reordered a copy or under-requested samples", "observed": str(results), "sig": "pipeline:batches"}
    per_copy = [{c: want} for (c, _), want in zip(results, new_n)]
    comb = combine_measurement_counts(per_copy, mult)
    exp = [{c: n} for c, n in zip(circs, ns)]
    if [dict(d) for d in comb] != exp:
        return {"ok": False, "msg": "expand -> batch -> run -> combine does not return the requested totals", "expected": str(exp), "observed": str(comb), "sig": "pipeline:totals"}
    return {"ok": True, "nt": any(n > m for n in ns) and len(new_c) > b, "ops": 3, "out": "m%d" % m}


def scale_case(case):
    """{'weights': [...]}: totals 0..16"""
    from orquestra.quantum.utils import scale_and_discretize
    w = case["weights"]
    k = 0
    for total in range(0, 17):
        got = scale_and_discretize(list(w), total)
        k += 1
        share = [F(x).limit_denominator(16) * total / sum(F(v).limit_denominator(16) for v in w) for x in w]
        bad = None
        if any(int(g) != g or isinstance(g, bool) for g in got) or len(got) != len(w):
            bad = "not a list of integers of the input length"
        elif sum(got) != total:
            bad = "sum %s != total" % sum(got)
        elif any(abs(F(int(g)) - s) >= 1 for g, s in zip(got, share)):
            bad = "an entry is not within one of its proportional share %s" % [str(s) for s in share]
        if bad:
            return {"ok": False, "msg": "scale_and_discretize(%s, %d): %s" % (w, total, bad), "observed": str(got), "sig": "scale", "ops": k}
    return {"ok": True, "nt": len(set(w)) > 1, "ops": k, "out": "len%d" % len(w)}


def scale_big_case(case):
    """{'weights': [...], 'total': t}: large totals (10^4 .. 10^18) and long weight lists: integers summing exactly to the total, each within one of its exact proportional share"""
    from orquestra.quantum.utils import scale_and_discretize
    w, total = case["weights"], case["total"]
    try:
        got = scale_and_discretize(list(w), total)
    except AssertionError as e:
        # the library's own closing assertion: it noticed that its float arithmetic did not reach the total and refuses instead of returning a wrong list
        return {"ok": False, "msg": "scale_and_discretize(%d weights, total=%d) raised AssertionError (%s) instead of returning integers summing to the total" % (len(w), total, e),
                "sig": "scale:refuses-beyond-2^53" if total > 2 ** 53 else "scale:assertion"}
    S = sum(F(x) for x in w)
    bad = None
    if len(got) != len(w) or any(int(g) != g or isinstance(g, bool) for g in got):
        bad = "not a list of integers of the input length"
    elif sum(int(g) for g in got) != total:
        bad = "sum is off by %d" % (sum(int(g) for g in got) - total)
    else:
        worst = max(abs(F(int(g)) - F(x) * total / S) for g, x in zip(got, w))
        if worst >= 1:
            bad = "an entry is %s away from its proportional share" % float(worst)
    if bad:
        return {"ok": False, "msg": "scale_and_discretize(%s..., total=%d): %s" % (str(w)[:60], total, bad), "sig": "scale:big"}
    return {"ok": True, "nt": len(set(w)) > 1, "out": "t%d" % len(str(total))}


def key_tuple(k):
    """'01' -> (0, 1); '0,10' -> (0, 10) (outcomes of non-binary subsystems are written comma-separated)"""
    return tuple(int(x) for x in k.split(",")) if "," in k else tuple(int(c) for c in k)


def represent_case(case):
    """{'weights': {key: w}, 'N': n, 'bound': d|None, 'keys': 'str'|'tuple'}: every answer script within the bound"""
    from orquestra.quantum.distributions import MeasurementOutcomeDistribution
    from orquestra.quantum.measurements import Measurements
    weights = case["weights"]
    N = case["N"]
    support = {key_tuple(k) for k, v in weights.items() if v > 0}
    outcomes = Counter()
    n_exec = 0
    max_calls = 0
    first_bad = None

    def execute(script):
        inp = {(key_tuple(k) if case.get("keys") == "tuple" else k): v for k, v in weights.items()}
        dist = MeasurementOutcomeDistribution(inp)
        before = dict(dist.distribution_dict)
        with seams.owned_rng(script):
            try:
                m = Measurements.get_measurements_representing_distribution(dist, N)
            except seams.UnownedRandomness:
                raise
            except Exception as e:  # noqa: BLE001
                return ("exception", "%s: %s" % (type(e).__name__, e), None)
        if len(script.calls) > 60:
            return ("livelock", "more than 60 RNG calls", None)
        shots = [tuple(int(b) for b in s) for s in m.bitstrings]
        if dict(dist.distribution_dict) != before:
            return ("mutated", str(dist.distribution_dict), shots)
        if len(shots) != N:
            return ("count", "%d shots returned for N=%d" % (len(shots), N), shots)
        if any(s not in support for s in shots):
            return ("support", "shot outside the support: %s" % [s for s in shots if s not in support][:3], shots)
        return ("ok", None, shots)

    for choices, obs, script in seams.explore(execute, bound=case["bound"], max_exec=50000):
        n_exec += 1
        max_calls = max(max_calls, len(script.calls))
        outcomes[obs[0]] += 1
        if obs[0] != "ok" and first_bad is None:
            # reproduce once more before reporting (determinism of the seam)
            s2 = seams.Script(choices)
            obs2 = execute(s2)
            if obs2[:2] != obs[:2]:
                return {"ok": False, "inconclusive": "non-reproducible schedule %s: %s vs %s" % (choices, obs[:2], obs2[:2])}
            first_bad = (choices, obs, [dict(c, p=[round(x, 4) for x in c["p"]]) for c in script.calls])
    r = {"ok": first_bad is None, "nt": max_calls >= 1, "ops": n_exec, "out": "calls%d" % max_calls, "extra": {"executions": n_exec, "rng_calls_max": max_calls}}
    if first_bad:
        choices, obs, calls = first_bad
        r.update(msg="get_measurements_representing_distribution: %s (%s) under RNG answers %s" % (obs[0], obs[1], choices), expected="exactly %d shots on the support" % N,
                 observed=str({"shots": obs[2], "rng_calls": calls})[:600], sig="represent:" + obs[0])
    return r


def seam_validation_case(case):
    """the same function under the REAL np.random with fixed seeds: every observed result is one the scripted enumeration allows
    (exactly N shots on the support) - validates that the double does not hide behaviour"""
    from orquestra.quantum.distributions import MeasurementOutcomeDistribution
    from orquestra.quantum.measurements import Measurements
    w, N = case["weights"], case["N"]
    support = {key_tuple(k) for k, v in w.items() if v > 0}
    for seed in range(5):
        np.random.seed(seed)
        m = Measurements.get_measurements_representing_distribution(MeasurementOutcomeDistribution(dict(w)), N)
        shots = [tuple(int(b) for b in s) for s in m.bitstrings]
        if len(shots) != N or any(s not in support for s in shots):
            return {"ok": False, "msg": "real RNG (seed %d): %d shots for N=%d / off-support" % (seed, len(shots), N), "observed": str(shots), "sig": "represent:real-rng"}
    return {"ok": True, "nt": True, "ops": 5, "out": "real"}


FUNCS = {"expand_histories": expand_history_case, "scale_kinds": scale_kinds_case, "scale_big": scale_big_case, "expand_kinds": expand_kinds_case, "expand_combine": expand_case, "batches": batch_case, "pipeline": pipeline_case, "scale": scale_case, "represent": represent_case, "represent_wide": represent_case, "represent_multidigit": represent_case,
         "represent_real_rng": seam_validation_case}


def distributions(W):
    out = []
    for keys in (["0", "1"], ["00", "01", "10", "11"]):
        for ws in itertools.product(range(W + 1), repeat=len(keys)):
            if sum(ws) == 0:
                continue
            out.append({k: w for k, w in zip(keys, ws)})
    return out


def distributions3(W):
    keys = ["".join(map(str, b)) for b in itertools.product((0, 1), repeat=3)]
    return [{k: w for k, w in zip(keys, ws)} for ws in itertools.product(range(W + 1), repeat=8) if sum(ws)]


def two_level_family(thorough):
    """distributions on 3 bits with k 'rare' outcomes of weight a followed by m outcomes of weight b (a < b): the shapes for which rounding
    over/undershoots by >= 2 and a rare outcome gets zero rounded shots - where the random top-up / elimination logic has its branches"""
    keys = ["".join(map(str, b)) for b in itertools.product((0, 1), repeat=3)]
    out = []
    for k in (0, 1, 2, 3):
        for m in range(1, 9 - k):
            for a in ((1, 2, 3) if k else (0,)):
                for b in (4, 5, 6, 7, 8) if thorough else (4, 6, 8):
                    out.append({key: (a if i < k else b) for i, key in enumerate(keys[:k + m])})
    return out


def run(run):
    deep = run.tier == "thorough"      # the former thorough bounds are now the quick tier (10 s); thorough goes one step further
    thorough = True
    M = 36 if deep else 24
    secs = [Section("expand_combine", [{"max": m, "first": n0, "M": M} for m in range(1, M + 2) for n0 in range(1, M + 1)], expand_case,
                    desc="expand_sample_sizes + combine_measurement_counts/combine_bitstrings (called twice, shared per-copy dicts) on every count list")]
    kinds = []
    for dt, top in (("uint8", 255), ("int8", 127), ("uint16", 65535), ("int16", 32767), ("int32", 2 ** 31 - 1), ("uint32", 2 ** 32 - 1), ("int64", 2 ** 63 - 1), ("py", 10 ** 15), ("tuple", 10 ** 6)):
        # counts and maxima placed so that count + max exceeds the type's range, just fits, and is far inside it; at most ~40 copies per circuit
        for n_, m_ in ((top, top // 8 + 1), (top - 1, top // 2), (top // 2 + 3, top // 3), (top, top), (top - 3, top - 5), (7, 3), (min(top, 200), 9)):
            kinds.append({"dtype": dt, "ns": [n_, 5, max(1, n_ // 2)], "max": m_})
            if dt not in ("py", "tuple"):
                kinds.append({"dtype": dt, "ns": [n_], "max": m_, "max_typed": True})
    secs.append(Section("expand_kinds", kinds, expand_kinds_case, desc="expand_sample_sizes with counts as numpy arrays of 8/16/32/64-bit integer types (count + max beyond the type's range), tuples and large Python ints"))
    eh = [{"ns": list(ns_), "max": m_, "mut": mu} for ns_ in ([5], [7, 3], [10, 1, 4], [2, 2], [24, 24, 1]) for m_ in (1, 3, 4, 30) for mu in ("pop", "zero", "extend", "reverse")]
    secs.append(Section("expand_histories", eh, expand_history_case, desc="expand_sample_sizes called again with equal (and slightly different) arguments after the caller consumed the returned sequences in place"))
    sk = []
    for w_, t_ in (([1, 2, 3], 10), ([4 * 10 ** 18, 1, 1, 1, 1, 1, 1, 1, 1, 1], 5), ([10 ** 9, 2 * 10 ** 9, 3 * 10 ** 9], 10 ** 10), ([10 ** 6, 1, 7], 10 ** 13 + 1), ([3, 3, 3], 2 ** 40 + 1), ([2 ** 62, 2 ** 61], 7),
                   ([65535, 65535, 1], 70000), ([5, 1], 0), ([1] * 40, 10 ** 12 + 7)):
        for kd in ("int64", "pyint", "np-list", "tuple", "float64") + (("uint32", "int32", "float32") if max(w_) < 2 ** 31 else ()):
            sk.append({"weights": w_, "total": t_, "kind": kd})
            if t_ < 2 ** 62:
                sk.append({"weights": w_, "total": t_, "kind": kd, "total_np": True})
    secs.append(Section("scale_kinds", sk, scale_kinds_case, desc="scale_and_discretize with the weights as numpy integer / float arrays, lists of numpy integers, tuples, big Python ints (weight x total beyond 2^63), totals as numpy integers"))
    secs.append(Section("batches", [{"len": L, "size": b} for L in range(0, 8) for b in range(1, 9)], batch_case, desc="split_into_batches"))
    P = [{"ns": list(ns), "max": m, "batch": b} for k in (1, 2, 3) for ns in itertools.product((1, 4, 7, 10), repeat=k) for m in (1, 3, 4, 10) for b in (1, 2, 5)]
    secs.append(Section("pipeline", P, pipeline_case, desc="expand -> split_into_batches -> reference runner -> combine"))
    Wt = [list(w) for k in range(1, 5) for w in itertools.product((1, 2, 3, 5, 0.5), repeat=k)]
    secs.append(Section("scale", [{"weights": w} for w in Wt], scale_case, desc="scale_and_discretize on every weight list x totals 0..16"))
    WB = [[1, 2, 3], [0.1, 0.2, 0.7], [1e-9, 1, 1e9], [1] * 300, [i + 1 for i in range(1000)], [0.3, 0.3, 0.4], [1 / 3] * 3, [1] * 7, [0.1] * 10, [(i * 37) % 11 + 0.5 for i in range(257)], [2.5], [1e-150, 3e-150]]
    secs.append(Section("scale_big", [{"weights": w_, "total": t_} for w_ in WB for t_ in (10 ** 4, 65536, 10 ** 6 + 1, 2 ** 31 + 7, 10 ** 9 + 1, 10 ** 12 + 3, 10 ** 15 + 7, 2 ** 53 + 1, 10 ** 18 + 1)], scale_big_case,
                        desc="scale_and_discretize with totals 10^4 .. 10^18 on 12 weight lists (up to 1000 weights, ratios of 1e18)"))
    D = distributions(5) + (distributions3(2) if deep else [])
    Ns = range(1, 17) if deep else range(1, 13)
    bound = None if thorough else 2
    cases = [{"weights": d, "N": n, "bound": bound, "keys": "str"} for d in D for n in Ns]
    cases += [{"weights": d, "N": n, "bound": bound, "keys": "tuple"} for d in D[::7] for n in Ns]
    secs.append(Section("represent", cases, represent_case, horizon=600, desc="get_measurements_representing_distribution under every scripted RNG answer (bound=%s)" % bound))
    # outcomes of non-binary subsystems (entries >= 10 need more than one character): every weight assignment 0..3 on three such outcomes
    QK = ["0,10", "12,1", "3,0"]
    qcases = [{"weights": dict(zip(QK, w)), "N": n, "bound": bound, "keys": kk} for w in itertools.product(range(0, 4), repeat=3) if any(w) for n in (1, 2, 3, 5, 8)
              for kk in ("str", "tuple")]
    secs.append(Section("represent_multidigit", qcases, represent_case, horizon=600, desc="distributions over outcomes with multi-digit entries (comma-separated / tuple keys), every scripted RNG answer (bound=%s)" % bound))
    fam = two_level_family(thorough)
    wb = 3 if deep else 2
    cases = [{"weights": d, "N": n, "bound": wb, "keys": "str"} for d in fam for n in (range(1, 17) if deep else (2, 3, 4, 5, 7, 9, 12))]
    secs.append(Section("represent_wide", cases, represent_case, horizon=900, chunk=8,
                        desc="two-level distributions on 3 bits (rare outcomes first), every execution with <= %d non-default RNG answers" % wb))
    secs.append(Section("represent_real_rng", [{"weights": d, "N": n} for d in D[::5] for n in Ns], seam_validation_case,
                        desc="same inputs under the real np.random (seeds 0..4): results must lie inside what the enumeration allows"))
    run.run_sections(secs)
