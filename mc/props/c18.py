"""C18 - decomposing a circuit never changes what it does, up to ONE global phase (E1 + cut-off over U3 angles)."""
import itertools

import numpy as np
import sympy

from mc.engine import Section, jdump
from mc.gates import G, W, arity, mk_circuit, mk_gate, num
from mc.props.c01 import ref_unitary
from mc.ref import linalg as L
from mc import cutoff

RULE = ("U3 plain / 1 control / 2 controls on the certificate grid of angle triples (degrees of W = U(c) U(decomposed)^dagger obtained by walking the "
        "symbolic matrices the real factories return), every index placement on n<=3 (2 controls: n<=4), every circuit of length <=2 mixing a U3-kind "
        "operation with operations no rule matches (both orders); oracle on WHOLE circuits: W has vanishing off-diagonal and equal unit-modulus diagonal "
        "entries; unmatched operations are the same objects in the same order; rule lists: [], [rule], [rule, rule], order-sensitive harness rules. "
        "non-trivial = circuit contains a rule-matched operation and a second operation or a non-trivial placement")
RULE += ' Also: rule lists over 6 rules incl. one whose output re-matches itself, circuits with same-wrapper gates of equal parameters, predicate/production called in other orders than decompose_operations does.'
RULE += ' Round 5: a rule with an empty production; one circuit object and one rule-list object mutated in place between decompositions (every history of 2-3 mutations).'
RULE += ' Round 7: operations that are not gates (MultiPhaseOperation) before / after / between matched operations (D34); a rule that hands out ONE list object for all its productions.'
RULE += ' Round 6: symbolic angle expressions over 7 symbol-name families in every slot order, decomposed symbolically and bound afterwards.'
ASSUMPTIONS = ["to_unitary is the ordered product (C01) and gate matrices are as C02 decided", "cut-off: W entries are trigonometric polynomials of the certified degree in the half angles"]
BOUNDS = {"quick": {"grid": "full certificate grid for each U3 kind on one placement", "placements": "all, 3 angle triples", "length": 2},
          "thorough": {"grid": "full certificate grid", "placements": "all, 5 angle triples", "length": 2}}
TRIPLES = [(0.3, 0.4, 0.5), (-1.1, 2.5, 0.7), (2.2, -0.9, 1.9), (0.9, 0.4, -0.4), (5.1, 3.3, -2.7)]


def u3_gate(kind, ang):
    g = G("U3", *[float(a) for a in ang])
    return g if kind == 0 else W("controlled", g, k=kind)


_RULE = []


def decompose(circ, rules=None):
    """the SAME rule object serves every decomposition of this process (a rule is a value: reusing it must not matter)"""
    from orquestra.quantum.decompositions import U3GateToRotation, decompose_orquestra_circuit
    if not _RULE:
        _RULE.append(U3GateToRotation())
    return decompose_orquestra_circuit(circ, [_RULE[0]] if rules is None else rules)


def padU(U, n):
    k = int(np.log2(U.shape[0]))
    return np.kron(U, np.eye(2 ** (n - k))) if k < n else U


def op_by_op_unitary(c, n):
    """a circuit holding operations that are not gates has no to_unitary(): ordered product of the gates' own embedded matrices and the diagonal phases of a MultiPhaseOperation"""
    U = np.eye(2 ** n, dtype=complex)
    for o in c.operations:
        M = L.embed(num(o.gate.matrix), tuple(o.qubit_indices), n) if hasattr(o, "gate") else np.diag(np.exp(1j * np.array([float(x) for x in o.params])))
        U = M @ U
    return U


def judge(case_ops, n, circ, dec):
    """returns None if dec acts like circ up to one global phase; else (msg, sig, expected, observed)"""
    if any(not hasattr(o, "gate") for o in list(circ.operations) + list(dec.operations)):
        if dec.n_qubits != circ.n_qubits:
            return ("decomposed circuit acts on a register of another width than the original", "width", circ.n_qubits, dec.n_qubits)
        Wm_ = op_by_op_unitary(circ, n) @ op_by_op_unitary(dec, n).conj().T
        if L.is_global_phase_of_identity(Wm_, 1e-8) or (any("gate" in od and od["gate"].get("w") == "controlled" for od in case_ops)):
            # (circuits with a controlled U3 carry finding D16; what is judged for them here is only that the non-gate operations are kept in place - done by the caller)
            return None
        return ("decomposed circuit with non-gate operations does not act like the original", "action", "W = phase * I", "W diagonal %s" % np.round(np.diag(Wm_), 4).tolist()[:8])
    U = padU(num(circ.to_unitary()), n)
    if dec.n_qubits != circ.n_qubits:
        return ("decomposed circuit acts on a register of another width than the original (idle qubits are part of the circuit)", "width", circ.n_qubits, dec.n_qubits)
    V = padU(num(dec.to_unitary()), n)
    Wm = U @ V.conj().T
    if L.is_global_phase_of_identity(Wm, 1e-8):
        return None
    # root-cause classification for the known finding D16: every controlled-U3 lost exactly its phase e^{i(phi+lam)/2} on the all-ones control block
    pred = np.eye(2 ** n, dtype=complex)
    has_cu3 = False
    for od in case_ops:
        g = od.get("gate", {})
        if g.get("w") == "controlled" and g["of"].get("g") == "U3":
            has_cu3 = True
            th, ph, la = g["of"]["p"]
            M = L.controlled(np.exp(-0.5j * (ph + la)) * num(mk_gate(g["of"]).matrix), g["k"])
            pred = L.embed(M, tuple(od["q"]), n) @ pred
        elif g.get("g") == "U3":
            pred = ref_unitary([od], n) @ pred   # a plain U3 may lose a global phase: harmless
        else:
            pred = ref_unitary([od], n) @ pred
    if has_cu3 and L.is_global_phase_of_identity(pred @ V.conj().T, 1e-8):
        return ("decomposed circuit differs from the original by a RELATIVE phase: each controlled U3 lost e^{i(phi+lambda)/2} on its all-ones control block",
                "cu3-relative-phase", "one global phase", "W diagonal %s" % np.round(np.diag(Wm), 4).tolist()[:8])
    return ("decomposed circuit does not act like the original (not even up to the controlled-U3 phase of finding D16)", "action",
            "W = phase * I", "W diagonal %s, max off-diagonal %.3e" % (np.round(np.diag(Wm), 4).tolist()[:8], np.abs(Wm - np.diag(np.diag(Wm))).max()))


def circuit_case(case):
    """{'ops': [...], 'n': n}"""
    n = case["n"]
    circ = mk_circuit(case)
    dec = decompose(circ)
    matched = [i for i, od in enumerate(case["ops"]) if "gate" in od and (od["gate"].get("g") == "U3" or (od["gate"].get("w") == "controlled" and od["gate"]["of"].get("g") == "U3"))]
    # unmatched operations: same objects, same relative order
    un_orig = [o for i, o in enumerate(circ.operations) if i not in matched]
    un_dec = [o for o in dec.operations if any(o is x for x in un_orig)]
    if len(un_dec) != len(un_orig) or any(a is not b for a, b in zip(un_dec, un_orig)):
        return {"ok": False, "msg": "operations no rule applies to are not kept unchanged and in order", "expected": str([str(o) for o in un_orig]), "observed": str([str(o) for o in dec.operations]),
                "sig": "unmatched"}
    if any(hasattr(o, "gate") and (o.gate.name == "U3" or (hasattr(o.gate, "wrapped_gate") and getattr(o.gate.wrapped_gate, "name", "") == "U3" and type(o.gate).__name__ == "ControlledGate")) for o in dec.operations):
        return {"ok": False, "msg": "a U3 (plain or controlled) survived decomposition", "observed": str([str(o) for o in dec.operations]), "sig": "not-decomposed"}
    bad = judge(case["ops"], n, circ, dec)
    r = {"ok": bad is None, "nt": bool(matched) and (len(case["ops"]) >= 2 or case["ops"][0].get("q") != list(range(len(case["ops"][0].get("q", []))))), "ops": 2,
         "out": "matched%d" % len(matched)}
    if bad:
        r.update(msg=bad[0], sig=bad[1], expected=str(bad[2]), observed=str(bad[3]))
    return r


def grid_case(case):
    """{'kind': 0|1|2, 'points': [[th,ph,la]..]}: one placement, a chunk of the certificate grid"""
    kind = case["kind"]
    q = list(range(kind + 1))[::-1]   # descending indices: target last listed
    n = kind + 1
    k = 0
    known = None
    for ang in case["points"]:
        ops = [{"gate": u3_gate(kind, ang), "q": q}]
        circ = mk_circuit({"ops": ops, "n": n})
        bad = judge(ops, n, circ, decompose(circ))
        k += 1
        if bad:
            r = {"ok": False, "msg": bad[0] + " at angles %s" % (tuple(round(a, 4) for a in ang),), "sig": bad[1], "expected": str(bad[2]), "observed": str(bad[3])}
            if bad[1] != "cu3-relative-phase":
                return {**r, "ops": k}          # anything that is not the listed root cause is reported at once
            known = known or r                 # keep judging the remaining points: another root cause must not hide behind the known one
    if known:
        return {**known, "ops": k}
    return {"ok": True, "nt": True, "ops": k, "out": "kind%d" % kind}


def certificate():
    """degrees of W = U3 * (RZ RY RZ)^dagger in the half angles, from the symbolic matrices of the real factories"""
    from orquestra.quantum import circuits as C
    t, p, l = sympy.symbols("theta phi lam", real=True)
    dU = cutoff.matrix_degree(C.U3(t, p, l).matrix, [t, p, l])
    d1 = cutoff.matrix_degree(C.RZ(p).matrix, [t, p, l]); d2 = cutoff.matrix_degree(C.RY(t).matrix, [t, p, l]); d3 = cutoff.matrix_degree(C.RZ(l).matrix, [t, p, l])
    if None in (dU, d1, d2, d3):
        return None
    return [dU[s] + d1[s] + d2[s] + d3[s] for s in (t, p, l)]


def rules_case(case):
    from orquestra.quantum import circuits as C
    from orquestra.quantum.decompositions import U3GateToRotation, decompose_orquestra_circuit, decompose_operations
    kind = case["kind"]
    circ = C.Circuit([C.X(0), C.U3(0.3, 0.4, 0.5)(1), C.Y(1), C.T(0)], n_qubits=2)

    class A:   # X -> Y
        def predicate(self, op): return op.gate.name == "X"
        def production(self, op): return [C.Y(*op.qubit_indices)]

    class B:   # Y -> Z, Z
        def predicate(self, op): return op.gate.name == "Y"
        def production(self, op): return [C.Z(*op.qubit_indices), C.Z(*op.qubit_indices)]
    names = lambda c: [o.gate.name for o in (c.operations if hasattr(c, "operations") else c)]  # noqa: E731
    if kind == "empty":
        d = decompose_orquestra_circuit(circ, [])
        ok = list(d.operations) == list(circ.operations) and all(a is b for a, b in zip(d.operations, circ.operations)) and d == circ
        return {"ok": bool(ok), "nt": True, "out": "empty", "msg": "empty rule list changed the circuit", "sig": "rules:empty"}
    if kind == "AB":
        got = names(decompose_orquestra_circuit(circ, [A(), B()]))
        exp = ["Z", "Z", "U3", "Z", "Z", "T"]
    elif kind == "BA":
        got = names(decompose_orquestra_circuit(circ, [B(), A()]))
        exp = ["Y", "U3", "Z", "Z", "T"]
    elif kind == "U3U3":
        a = decompose_orquestra_circuit(circ, [U3GateToRotation(), U3GateToRotation()])
        b = decompose_orquestra_circuit(circ, [U3GateToRotation()])
        got, exp = names(a), names(b)
        if a != b:
            return {"ok": False, "msg": "[rule, rule] differs from [rule]", "sig": "rules:idempotent"}
    elif kind == "A,U3,B":
        got = names(decompose_orquestra_circuit(circ, [A(), U3GateToRotation(), B()]))
        exp = ["Z", "Z", "RZ", "RY", "RZ", "Z", "Z", "T"]
    elif kind == "ops":
        got = names(decompose_operations(list(circ.operations), [A(), B()]))
        exp = ["Z", "Z", "U3", "Z", "Z", "T"]
    ok = got == exp
    return {"ok": ok, "nt": True, "out": kind, "msg": "rules are not applied in the order given to the output of the previous rule (%s)" % kind, "expected": str(exp), "observed": str(got),
            "sig": "rules:order"}


def _rule_objects():
    from orquestra.quantum import circuits as C
    from orquestra.quantum.decompositions import U3GateToRotation

    class A:   # X -> Y
        def predicate(self, op): return op.gate.name == "X"
        def production(self, op): return [C.Y(*op.qubit_indices)]

    class B:   # Y -> Z, Z   (a generator: a production is any iterable)
        def predicate(self, op): return op.gate.name == "Y"
        def production(self, op): return (g(*op.qubit_indices) for g in (C.Z, C.Z))

    class Hr:  # H -> U3(pi/2, 0, pi)  (equal to H up to a global phase): its output is only matched by the U3 rule
        def predicate(self, op): return op.gate.name == "H"
        def production(self, op): return [C.U3(np.pi / 2, 0.0, np.pi)(*op.qubit_indices)]

    class Zt:  # Z -> T, T, T, T
        def predicate(self, op): return op.gate.name == "Z"
        def production(self, op): return tuple(C.T(*op.qubit_indices) for _ in range(4))
    class Split:  # RZ(a) with |a| > 1 -> RZ(a/2) RZ(a/2): its own output may match it again - a rule is applied ONCE per position in the list, not to a fixed point
        def predicate(self, op): return op.gate.name == "RZ" and abs(float(op.gate.params[0])) > 1
        def production(self, op): return [C.RZ(float(op.gate.params[0]) / 2)(*op.qubit_indices)] * 2
    class Drop:  # T -> nothing (an empty production removes the operation; alternately a list, a tuple and an exhausted generator)
        calls = 0
        def predicate(self, op): return op.gate.name == "T"
        def production(self, op):
            self.calls += 1
            return [[], (), iter(())][self.calls % 3]
    class Memo:  # X -> S, S  handing out ONE list object per matched operation, kept by the rule (a memoising rule): what a rule returns stays the rule's
        def __init__(self):
            self.store = {}
        def predicate(self, op): return op.gate.name == "X"
        def production(self, op):
            key = tuple(op.qubit_indices)
            if key not in self.store:
                self.store[key] = [C.S(*op.qubit_indices), C.S(*op.qubit_indices)]
            return self.store[key]
    return {"A": A(), "B": B(), "H": Hr(), "Z": Zt(), "U3": U3GateToRotation(), "S": Split(), "D": Drop(), "M": Memo()}


RULE_CIRCUITS = [
    {"ops": [{"gate": G("X"), "q": [0]}, {"gate": G("T"), "q": [0]}], "n": 1},
    {"ops": [{"gate": G("H"), "q": [1]}, {"gate": G("CNOT"), "q": [1, 0]}], "n": 2},
    {"ops": [{"gate": G("Y"), "q": [1]}, {"gate": G("X"), "q": [0]}, {"gate": G("H"), "q": [0]}], "n": 3},        # idle qubit 2
    {"ops": [{"gate": G("T"), "q": [0]}, {"gate": G("U3", 0.3, 0.4, -0.4), "q": [1]}, {"gate": G("X"), "q": [1]}, {"gate": G("Z"), "q": [0]}], "n": 2},
    {"ops": [{"gate": G("T"), "q": [1]}, {"gate": G("CNOT"), "q": [0, 1]}], "n": 4},                             # nothing matches, idle qubits 2, 3
    {"ops": [], "n": 2},
    {"ops": [{"gate": G("X"), "q": [0]}, {"gate": G("X"), "q": [0]}, {"gate": G("T"), "q": [1]}, {"gate": G("X"), "q": [1]}, {"gate": G("X"), "q": [0]}], "n": 2},      # the same matched operation several times
    {"ops": [{"gate": G("RZ", 4.4), "q": [0]}, {"gate": G("X"), "q": [1]}, {"gate": G("RZ", 0.5), "q": [1]}], "n": 2},
    # different gates under the same wrapper kind with equal parameters on the same qubits (a wrapper's name does not identify the gate)
    {"ops": [{"gate": W("controlled", G("RZ", 0.7), k=1), "q": [0, 1]}, {"gate": W("controlled", G("RY", 0.7), k=1), "q": [0, 1]}, {"gate": W("controlled", G("X"), k=1), "q": [1, 0]},
             {"gate": W("controlled", G("Z"), k=1), "q": [1, 0]}, {"gate": W("dagger", G("T")), "q": [0]}, {"gate": W("dagger", G("S")), "q": [0]}], "n": 2},
]


def rule_lists_case(case):
    """{'circ': index, 'rules': [names], 'entry': how the operations are handed over}: the result is the sequential application of the rules in the
    order given, each to the output of the previous one (reference: plain list rewriting with the same rule objects' predicate/production on FRESH objects)"""
    from orquestra.quantum import circuits as C
    from orquestra.quantum.decompositions import decompose_orquestra_circuit, decompose_operations
    cd = RULE_CIRCUITS[case["circ"]]
    circ = mk_circuit(cd)
    before = [o for o in circ.operations]
    R, Rref = _rule_objects(), _rule_objects()
    rules = [R[nm] for nm in case["rules"]]
    entry = case["entry"]
    if entry == "circuit":
        out = decompose_orquestra_circuit(circ, rules)
        got_ops = list(out.operations)
        if out.n_qubits != circ.n_qubits:
            return {"ok": False, "msg": "decomposed circuit has width %d, the original %d (rules %s)" % (out.n_qubits, circ.n_qubits, case["rules"]), "sig": "rule-lists:width"}
        if not rules and not (out == circ):
            return {"ok": False, "msg": "empty rule list: the returned circuit is not equal to the original", "sig": "rule-lists:empty"}
    else:
        src = {"list": lambda: list(circ.operations), "tuple": lambda: tuple(circ.operations), "iter": lambda: iter(list(circ.operations)),
               "gen": lambda: (o for o in circ.operations)}[entry]()
        got_ops = list(decompose_operations(src, rules))
    exp = list(circ.operations)
    for nm in case["rules"]:
        nxt = []
        for o in exp:
            nxt += list(Rref[nm].production(o)) if Rref[nm].predicate(o) else [o]
        exp = nxt
    sig_of = lambda o: (o.gate.name, tuple(o.qubit_indices), tuple(round(float(p), 9) for p in o.gate.params), getattr(getattr(o.gate, "wrapped_gate", None), "name", None))  # noqa: E731
    if [sig_of(o) for o in got_ops] != [sig_of(o) for o in exp]:
        return {"ok": False, "msg": "rules %s via %s: result is not the rules applied in the order given, each to the output of the previous one" % (case["rules"], entry),
                "expected": str([str(o) for o in exp]), "observed": str([str(o) for o in got_ops]), "sig": "rule-lists:order"}
    if "M" in case["rules"]:
        if any(len(v) != 2 for v in R["M"].store.values()):
            return {"ok": False, "msg": "a list handed out by a rule's production was modified by the decomposition (rules %s via %s)" % (case["rules"], entry), "observed": str({k_: len(v) for k_, v in R["M"].store.items()}),
                    "sig": "rule-lists:production-mutated"}
        again = list(decompose_orquestra_circuit(circ, rules).operations) if entry == "circuit" else list(decompose_operations(list(circ.operations), rules))
        if [sig_of(o) for o in again] != [sig_of(o) for o in exp]:
            return {"ok": False, "msg": "a second decomposition with the same rule objects (one of them memoises its productions) differs from the first", "expected": str([str(o) for o in exp]), "observed": str([str(o) for o in again]),
                    "sig": "rule-lists:second-run"}
    # operations that no rule ever touched are the same objects
    untouched = [o for o in before if not any(Rref[nm].predicate(o) for nm in case["rules"])]
    kept = [o for o in got_ops if any(o is u for u in untouched)]
    if len(kept) != len(untouched) or any(a is not b for a, b in zip(kept, untouched)):
        return {"ok": False, "msg": "operations no rule applies to are not kept (same objects, same order)", "sig": "rule-lists:unmatched"}
    if list(circ.operations) != before:
        return {"ok": False, "msg": "decomposition modified the input circuit", "sig": "rule-lists:mutated"}
    return {"ok": True, "nt": len(case["rules"]) >= 2, "ops": 1, "out": entry}


def list_history_case(case):
    """{'circ': index, 'entry': 'circuit'|'list', 'hist': [[mutation, rule name] ...]}: ONE circuit object and ONE rule-list object; the list is mutated in place
    (append / insert at the front / reverse / pop / clear) between decompositions: every call applies the list's CURRENT content, in its current order"""
    from orquestra.quantum.decompositions import decompose_orquestra_circuit, decompose_operations
    cd = RULE_CIRCUITS[case["circ"]]
    circ = mk_circuit(cd)
    R, Rref = _rule_objects(), _rule_objects()
    rules, names = [], []
    sig_of = lambda o: (o.gate.name, tuple(o.qubit_indices), tuple(round(float(p), 9) for p in o.gate.params), getattr(getattr(o.gate, "wrapped_gate", None), "name", None))  # noqa: E731
    k = 0
    for mut, nm in case["hist"]:
        if mut == "append":
            rules.append(R[nm]); names.append(nm)
        elif mut == "front":
            rules.insert(0, R[nm]); names.insert(0, nm)
        elif mut == "reverse":
            rules.reverse(); names.reverse()
        elif mut == "pop" and rules:
            rules.pop(); names.pop()
        elif mut == "clear":
            rules.clear(); names.clear()
        got_ops = list(decompose_orquestra_circuit(circ, rules).operations) if case["entry"] == "circuit" else list(decompose_operations(circ.operations, rules))
        k += 1
        exp = list(circ.operations)
        for n_ in names:
            nxt = []
            for o in exp:
                nxt += list(Rref[n_].production(o)) if Rref[n_].predicate(o) else [o]
            exp = nxt
        if [sig_of(o) for o in got_ops] != [sig_of(o) for o in exp]:
            return {"ok": False, "msg": "call %d with the rule list mutated in place to %s: result is not this list applied in order" % (k, names), "expected": str([str(o) for o in exp]),
                    "observed": str([str(o) for o in got_ops]), "sig": "rule-lists:history", "ops": k}
    return {"ok": True, "nt": len(case["hist"]) >= 2, "ops": k, "out": case["entry"]}


def protocol_case(case):
    """{'order': how predicate and production calls are interleaved}: a rule is a value: production(op) decomposes THE operation it is given, however many
    predicate / production calls on other operations happened before on the same rule object"""
    from orquestra.quantum import circuits as C
    from orquestra.quantum.decompositions import U3GateToRotation
    ops = [C.U3(0.3, 0.4, -0.4)(2), C.U3(0.5, 0.1, -0.1).controlled(1)(0, 1), C.T(0), C.U3(0.7, 0.2, -0.2).controlled(2)(2, 0, 1), C.U3(0.9, -0.3, 0.3)(1), C.U3(1.1, 0.6, -0.6).controlled(1)(2, 0)]
    n = 3
    rule = U3GateToRotation()
    order = case["order"]
    if order == "filter-then-produce":
        matched = [o for o in ops if rule.predicate(o)]
        prods = [list(rule.production(o)) for o in matched]
    elif order == "reverse-produce":
        matched = [o for o in ops if rule.predicate(o)]
        prods = [list(rule.production(o)) for o in reversed(matched)][::-1]
    elif order == "fresh-rule-produce":
        matched = [o for o in ops if U3GateToRotation().predicate(o)]
        prods = [list(U3GateToRotation().production(o)) for o in matched]
    else:  # interleaved with predicates on the OTHER operations in between
        matched, prods = [], []
        for i, o in enumerate(ops):
            if rule.predicate(o):
                for other in ops[i + 1:] + ops[:i]:
                    rule.predicate(other)
                matched.append(o)
                prods.append(list(rule.production(o)))
    if len(matched) != 5:
        return {"ok": False, "msg": "predicate matched %d of the 5 U3-kind operations" % len(matched), "sig": "protocol:predicate"}
    for o, pr in zip(matched, prods):
        U = num(C.Circuit([o], n_qubits=n).to_unitary())
        V = num(C.Circuit(pr, n_qubits=n).to_unitary())
        if not L.is_global_phase_of_identity(U @ V.conj().T, 1e-8):
            return {"ok": False, "msg": "production(%s) called %s does not act like the operation it was given: %s" % (o, order, [str(x) for x in pr]), "sig": "protocol:production"}
    return {"ok": True, "nt": True, "ops": 5, "out": order}


SYM_FAMILIES = [("theta", "phi", "lambda"), ("theta", "phi", "lambda_"), ("alpha", "beta", "gamma"), ("a", "b", "c"), ("x", "y", "z"), ("phi", "lam", "theta_0"), ("t", "p", "l")]


def _sym_triples(fam):
    a, b, c = [sympy.Symbol(n) for n in fam]
    out = [list(p) for p in itertools.permutations((a, b, c))]
    out += [[b, a, 0.3], [b + c, 2 * a, c], [a, a, a], [c, c, a], [a + b, b + c, c + a], [0.4, c, a - b], [-a, b / 2, a * c], [a, 0.5, a]]
    return out


def symbolic_case(case):
    """{'fam': index, 'kind': 0|1, 'which': index}: a U3 (plain / controlled) whose ANGLES ARE SYMBOLIC EXPRESSIONS - over symbols with every kind of name, in every slot order -
    is decomposed symbolically; afterwards both circuits are bound to numbers (two assignments): they must act alike up to one global phase"""
    from orquestra.quantum import circuits as C
    fam = SYM_FAMILIES[case["fam"]]
    tri = _sym_triples(fam)[case["which"]]
    kind = case["kind"]
    g = C.U3(*tri)
    if kind:
        g = g.controlled(kind)
    q = list(range(kind + 1))[::-1]
    n = kind + 1
    circ = C.Circuit([g(*q)], n_qubits=n)
    dec = decompose(circ)
    syms = sorted(set().union(*[sympy.sympify(e).free_symbols for e in tri]), key=str)
    if set(dec.free_symbols) - set(syms):
        return {"ok": False, "msg": "decomposition of U3%s introduced new symbols %s" % (tuple(tri), sorted(map(str, set(dec.free_symbols) - set(syms)))), "sig": "symbolic:new-symbols"}
    k = 0
    known = None
    for vals in ((0.37, -1.21, 2.05), (2.9, 0.55, -0.8)):
        asg = {s_: v for s_, v in zip(syms, vals)}
        ang = [float(sympy.sympify(e).subs(asg)) for e in tri]
        cb, db = circ.bind(asg), dec.bind(asg)
        if db.free_symbols:
            return {"ok": False, "msg": "decomposed circuit still has free symbols %s after binding every symbol of the original" % db.free_symbols, "sig": "symbolic:free"}
        ops = [{"gate": u3_gate(kind, ang), "q": q}]
        bad = judge(ops, n, cb, db)
        k += 1
        if bad:
            r = {"ok": False, "msg": bad[0] + " for symbolic angles %s bound at %s" % (tuple(str(e) for e in tri), {str(a): b for a, b in asg.items()}), "sig": bad[1], "expected": str(bad[2]), "observed": str(bad[3]), "ops": k}
            if bad[1] != "cu3-relative-phase":
                return r
            known = known or r
    if known:
        return known
    return {"ok": True, "nt": True, "ops": k, "out": "kind%d" % kind}


def nested_control_case(case):
    """{'outer': k1, 'inner': k2, 'q': indices, 'angles': [...]}: a U3 under TWO ControlledGate wrappers built directly (ControlledGate(U3.controlled(k2), k1)) - whether a rule takes it
    or leaves it alone, the decomposed circuit acts like the original (phi = -lambda, so that finding D16 stays out of the picture) and keeps its width"""
    from orquestra.quantum import circuits as C
    from orquestra.quantum.circuits import _gates
    th, ph = case["angles"]
    g = _gates.ControlledGate(C.U3(th, ph, -ph).controlled(case["inner"]), case["outer"])
    n = max(case["q"]) + 1
    circ = C.Circuit([C.T(case["q"][-1]), g(*case["q"]), C.H(case["q"][0])], n_qubits=n)
    try:
        dec = decompose(circ)
        U, V = op_by_op_unitary(circ, n), op_by_op_unitary(dec, n)
    except Exception as e:  # noqa: BLE001
        return {"ok": False, "msg": "decomposing / evaluating a circuit with a U3 under two nested control wrappers raises %s: %s" % (type(e).__name__, str(e)[:100]), "sig": "nested:raises"}
    if dec.n_qubits != n or not L.is_global_phase_of_identity(U @ V.conj().T, 1e-8):
        return {"ok": False, "msg": "a U3 under two nested control wrappers (%d + %d controls on %s): the decomposed circuit does not act like the original" % (case["outer"], case["inner"], case["q"]), "sig": "nested:action"}
    return {"ok": True, "nt": True, "ops": 2, "out": "nested"}


FUNCS = {"nested_controls": nested_control_case, "symbolic_angles": symbolic_case, "rule_list_histories": list_history_case, "protocol": protocol_case, "rule_lists": rule_lists_case, "special_angles": grid_case, "grid": grid_case, "circuits": circuit_case, "circuits_idle": circuit_case, "rules": rules_case}


def partner_ops(n):
    out = [{"gate": G("T"), "q": [q]} for q in range(n)] + [{"gate": G("RX", 0.3), "q": [0]}]
    if n >= 2:
        out += [{"gate": G("CNOT"), "q": list(p)} for p in itertools.permutations(range(n), 2)] + [{"gate": G("custom2"), "q": [n - 1, 0]}]
    return out


def run(run):
    thorough = run.tier == "thorough"
    deg = certificate()
    if deg is None:
        run.notes.append("no degree certificate: grid 5x9x9 used, claim is grid-only")
        deg = [2, 4, 4]
    else:
        run.notes.append("certificate: W has half-angle degrees %s in (theta, phi, lambda) -> grid %s" % (deg, [2 * d + 1 for d in deg]))
    axes = [cutoff.grid_points(2 * d + 1) for d in deg]
    grid = [list(p) for p in itertools.product(*axes)]
    cases = []
    for kind in (0, 1, 2):
        for i in range(0, len(grid), 12):
            cases.append({"kind": kind, "points": grid[i:i + 12]})
    secs = [Section("grid", cases, grid_case, horizon=900, chunk=1, desc="U3 / c-U3 / cc-U3 on the full certificate grid of %d angle triples" % len(grid))]
    # exact special angles: a branch on an exact value (theta == pi ...) is invisible to a polynomial argument, so these are enumerated explicitly
    sp = [0, np.pi / 2, np.pi, -np.pi, 2 * np.pi, 3 * np.pi, 4 * np.pi]
    spg = [list(p) for p in itertools.product(sp, repeat=3)] + [[np.pi, 0.4, -0.4], [np.pi, 0.3, 0.5], [0, 0.3, 0.5], [2 * np.pi, 0.3, 0.5], [0.3, np.pi, 0], [0.3, 0, np.pi]]
    scases = [{"kind": kind, "points": spg[i:i + 10]} for kind in ((0, 1, 2) if thorough else (0, 1)) for i in range(0, len(spg), 10)]
    secs.append(Section("special_angles", scases, grid_case, horizon=900, chunk=1, desc="every triple of exact special angles {0, pi/2, pi, -pi, 2pi, 3pi, 4pi} (+ mixed) for each U3 kind"))
    tri = TRIPLES if thorough else TRIPLES[:3]
    cc = []
    for kind in (0, 1, 2):
        for n in range(kind + 1, (4 if kind == 2 else 3) + 1):
            for q in itertools.permutations(range(n), kind + 1):
                for ang in tri:
                    u = {"gate": u3_gate(kind, ang), "q": list(q)}
                    cc.append({"ops": [u], "n": n})
                    if ang is tri[0] or thorough:
                        for p in partner_ops(n):
                            cc.append({"ops": [u, p], "n": n})
                            cc.append({"ops": [p, u], "n": n})
    # two U3-kind operations in one circuit, and circuits without any matched operation
    cc.append({"ops": [{"gate": u3_gate(0, tri[0]), "q": [1]}, {"gate": u3_gate(1, tri[1]), "q": [2, 0]}], "n": 3})
    # the same (equal) matched operation several times in one circuit, and again in later circuits of this process
    for kind in (0, 1):
        u = {"gate": u3_gate(kind, tri[0]), "q": list(range(kind + 1))}
        cc += [{"ops": [u, u], "n": 2}, {"ops": [u, {"gate": G("T"), "q": [0]}, u], "n": 2}, {"ops": [u, u, u], "n": 2}, {"ops": [u], "n": 2}]
    cc.append({"ops": [{"gate": u3_gate(1, tri[0]), "q": [0, 1]}, {"gate": u3_gate(1, tri[1]), "q": [1, 0]}], "n": 2})
    cc += [{"ops": [p, q], "n": 3} for p in partner_ops(3)[:4] for q in partner_ops(3)[4:8]]
    cc.append({"ops": [{"gate": W("dagger", G("U3", 0.3, 0.4, 0.5)), "q": [0]}, {"gate": W("power", G("U3", 0.3, 0.4, 0.5), e=2), "q": [1]}], "n": 2})
    # operations that are not gates (a MultiPhaseOperation) before / after / between rule-matched operations: no rule applies to them, they are kept, in place
    for kind in (0, 1):
        u = {"gate": u3_gate(kind, tri[0]), "q": list(range(kind + 1))[::-1]}
        mp2 = {"mp": [0.1, 0.5, -0.3, 0.9]}
        t_ = {"gate": G("T"), "q": [0]}
        cc += [{"ops": ops_, "n": 2} for ops_ in ([u, mp2], [mp2, u], [u, mp2, u], [t_, mp2, u, t_], [mp2], [u, mp2, t_, mp2])]
    secs.append(Section("circuits", cc, circuit_case, horizon=900, desc="every placement x angle triples; length-2 circuits with unmatched partner operations in both orders"))
    secs.append(Section("rules", [{"kind": k} for k in ("empty", "AB", "BA", "U3U3", "A,U3,B", "ops")], rules_case, desc="empty rule list, rule order, idempotence"))
    names = ["A", "B", "H", "Z", "U3", "S", "D"]
    rl = [[]] + [list(p) for k in (1, 2, 3) for p in itertools.permutations(names, k)] + [["S", "S"], ["S", "U3", "S"], ["A", "A"], ["U3", "U3"]]
    if thorough:
        rl += [list(p) for p in itertools.permutations(names, 4)] + [[a, a] for a in names] + [[a, b, a] for a in names for b in names if a != b]
    rl += [["M"], ["M", "U3"], ["U3", "M"], ["A", "M"], ["M", "D"], ["M", "M"]]
    rc = [{"circ": ci, "rules": r, "entry": e} for ci in range(len(RULE_CIRCUITS)) for r in rl for e in ("circuit", "list", "tuple", "iter", "gen")]
    secs.append(Section("rule_lists", rc, rule_lists_case, horizon=300, desc="every ordered list of <= 3 distinct rules out of 7 (X->Y, Y->ZZ, H->U3, Z->TTTT, U3->rotations, RZ(a)->RZ(a/2)RZ(a/2), T->nothing) x 8 circuits (idle qubits, "
                        "empty) x 5 ways of handing the operations over (circuit, list, tuple, one-shot iterator, generator)"))
    muts = [["append", "A"], ["append", "B"], ["append", "U3"], ["front", "Z"], ["front", "H"], ["reverse", None], ["pop", None], ["clear", None], ["append", "D"]]
    hh = [{"circ": ci, "entry": e, "hist": [muts[i] for i in combo]} for ci in (2, 3) for e in ("circuit", "list") for ln in ((2, 3, 4) if thorough else (2, 3))
          for combo in itertools.product(range(len(muts)), repeat=ln) if muts[combo[0]][0] in ("append", "front")]
    secs.append(Section("rule_list_histories", hh, list_history_case, horizon=300, desc="one circuit object and one rule-list object mutated in place between decompositions (every history of 2-3 "
                        "mutations out of 9): each call applies the list as it is now"))
    secs.append(Section("protocol", [{"order": o} for o in ("filter-then-produce", "reverse-produce", "fresh-rule-produce", "interleaved")], protocol_case,
                        desc="predicate / production of one U3 rule object called in other orders than decompose_operations does, on operations with 0, 1, 2 controls (phi = -lambda)"))
    # circuits with idle qubits (declared width larger than the highest used index + 1)
    cc2 = [{"ops": [{"gate": u3_gate(kind, tri[0]), "q": list(range(kind + 1))[::-1]}], "n": kind + 1 + extra} for kind in (0, 1) for extra in (1, 2)]
    cc2 += [{"ops": [{"gate": G("T"), "q": [0]}], "n": 3}, {"ops": [], "n": 2}]
    secs.append(Section("circuits_idle", cc2, circuit_case, horizon=300, desc="circuits with idle trailing qubits: the decomposed circuit keeps the register"))
    sc = [{"fam": f, "kind": kind, "which": w} for f in range(len(SYM_FAMILIES)) for kind in (0, 1) for w in range(14)]
    secs.append(Section("symbolic_angles", sc, symbolic_case, horizon=600, desc="U3 / c-U3 with symbolic angle expressions over %d symbol-name families (theta/phi/lambda, alpha/beta/gamma ...), all slot permutations + mixed "
                        "expressions; decomposed symbolically, then both sides bound at two assignments" % len(SYM_FAMILIES)))
    nc = [{"outer": o_, "inner": i_, "q": list(q_), "angles": a_} for o_, i_ in ((1, 1), (2, 1), (1, 2)) for q_ in itertools.permutations(range(o_ + i_ + 1)) for a_ in ([0.3, 0.4], [2.2, -0.9])][:: (1 if thorough else 3)]
    secs.append(Section("nested_controls", nc, nested_control_case, horizon=600, desc="a U3 under two directly nested ControlledGate wrappers on every index order: decomposed or left alone, the action is kept"))
    run.run_sections(secs)
