"""C17 - outcome distributions stay normalised; marginals and distances obey their laws (E1)."""
import itertools
import math
import os
import shutil
import tempfile
from fractions import Fraction as F

import numpy as np

from mc.engine import Section, jdump

RULE = ("constructor: every dict over a non-empty subset of {0,1}^w with integer weights 0..3 (tuple, bit-string and comma-string keys; insertion orders), "
        "already-normalised variants, rejections (empty, negative incl. all-negative, unequal key lengths, non-integer entries); sub-distribution: EVERY ordered "
        "list of distinct in-range qubits (all permutations of all non-empty subsets) on w<=W bits vs exact Fraction marginals, source compared with a snapshot; "
        "distances: all ordered pairs of a pool of distributions (equal supports in different insertion orders included) x kernel widths: MMD symmetric, >= 0, "
        "0 on (p,p) and on equal copies; clipped NLL >= entropy - log(1+K eps); JS symmetric; save/load. non-trivial = at least two outcomes with different weights")
RULE += ' Also: kernel widths as tuple / numpy array; tiny negative weights (-1e-13, -1e-15, -1e-300) must be rejected.'
RULE += " Round 6: almost normalised input (total 1 +- 1e-5 .. 1e-8, float32 probabilities); squared MMD on registers of 15-130 subsystems against the definition with exact integer codes (D31)."
RULE += " Round 5: sparse distributions on 40-72 subsystems (marginals on all / the top four / every other subsystem); ragged keys whose lengths average to the first key's length, in every order."
ASSUMPTIONS = ["float sums compared at 1e-12", "distances are only compared between distributions on the same number of subsystems"]
BOUNDS = {"quick": {"w_ctor": 3, "w_marginal": 5, "pool": "80 + reordered/zero-key variants", "sigmas": 4}, "thorough": {"w_ctor": 3, "w_marginal": 6, "pool": "255 (weights 0..3 on 2 bits) + variants", "sigmas": 6}}
TOL = 1e-12


def keyfmt(bits, style):
    if style == "tuple":
        return tuple(bits)
    if style == "str":
        return "".join(map(str, bits))
    return ",".join(map(str, bits))


def mk_input(case):
    # weights may arrive as numpy scalars (counts from np.unique, uint16 histograms, float32 probabilities): numbers like any other
    conv = {None: lambda w: w, "int64": np.int64, "uint16": np.uint16, "float32": np.float32, "float64": np.float64, "int8": np.int8}[case.get("wkind")]
    return {keyfmt(b, case.get("style", "tuple")): conv(w) for b, w in case["items"]}


def ctor_case(case):
    """{'items': [[bits, weight]..], 'style': ..., 'valid': bool}"""
    from orquestra.quantum.distributions import MeasurementOutcomeDistribution
    inp = mk_input(case)
    before = dict(inp)
    try:
        d = MeasurementOutcomeDistribution(inp)
    except Exception as e:  # noqa: BLE001
        if case["valid"]:
            return {"ok": False, "msg": "valid input rejected: %s: %s" % (type(e).__name__, e), "sig": "ctor:rejected"}
        return {"ok": inp == before, "nt": True, "out": "rejected", "msg": "rejected input was modified", "sig": "ctor:rejected-mutated"}
    if not case["valid"]:
        return {"ok": False, "msg": "invalid input accepted (%s)" % case.get("why"), "observed": str(d.distribution_dict), "sig": "ctor:accepted-invalid"}
    dd = d.distribution_dict
    tot = sum(F(w).limit_denominator(1000) for _, w in case["items"])
    if inp != before:
        return {"ok": False, "msg": "constructor modified the caller's dictionary", "expected": str(before), "observed": str(inp), "sig": "ctor:mutated"}
    if set(dd) != {tuple(b) for b, _ in case["items"]}:
        return {"ok": False, "msg": "keys changed", "observed": str(list(dd)), "sig": "ctor:keys"}
    if any(v < 0 for v in dd.values()) or abs(sum(dd.values()) - 1) > TOL:
        return {"ok": False, "msg": "probabilities are not non-negative summing to 1", "observed": str(dd), "sig": "ctor:normalised"}
    for b, w in case["items"]:
        if abs(dd[tuple(b)] - float(F(w).limit_denominator(1000) / tot)) > TOL:
            return {"ok": False, "msg": "probabilities are not in the proportions of the input", "expected": float(F(w).limit_denominator(1000) / tot), "observed": dd[tuple(b)], "sig": "ctor:proportions"}
    ws = [w for _, w in case["items"]]
    return {"ok": True, "nt": len(set(ws)) >= 2, "out": "accepted"}


def near_case(case):
    """{'weights': [...], 'delta': d, 'style': ...}: input that is ALMOST normalised (total 1 + d, as probabilities written with 5-8 decimals or taken from float32 arrays are):
    the object built with normalisation on sums to 1 by the library's own rule (relative 1e-9) and keeps the proportions of the input"""
    from orquestra.quantum.distributions import MeasurementOutcomeDistribution
    ws = case["weights"]
    n = max(1, (len(ws) - 1).bit_length())
    tot = float(sum(ws))
    inp, exact = {}, {}
    for i, w in enumerate(ws):
        bits = [(i >> (n - 1 - b)) & 1 for b in range(n)]
        inp[keyfmt(bits, case.get("style", "tuple"))] = w / tot * (1 + case["delta"])
        exact[tuple(bits)] = F(w) / F(sum(F(x) for x in ws))
    if case.get("f32"):
        inp = {k_: float(np.float32(v)) for k_, v in inp.items()}
        t32 = sum(F(v) for v in inp.values())
        exact = {tuple(preproc(k_)): F(v) / t32 for k_, v in inp.items()}
    before = dict(inp)
    d = MeasurementOutcomeDistribution(inp)
    dd = d.distribution_dict
    if inp != before:
        return {"ok": False, "msg": "constructor modified the caller's dictionary", "sig": "near:mutated"}
    total = math.fsum(dd.values())
    if any(v < 0 for v in dd.values()) or abs(total - 1) > 2e-9:
        return {"ok": False, "msg": "input with total %.12g: the normalised object holds probabilities summing to %.12g" % (math.fsum(inp.values()), total), "expected": "1 (relative 1e-9, the library's own rule)",
                "observed": total, "sig": "near:normalised"}
    for k_, e_ in exact.items():
        if abs(dd[k_] - float(e_)) > 2e-9:
            return {"ok": False, "msg": "probabilities are not in the proportions of the input", "expected": float(e_), "observed": dd[k_], "sig": "near:proportions"}
    return {"ok": True, "nt": True, "out": "near"}


def preproc(k_):
    return tuple(map(int, k_ if "," not in k_ else k_.split(","))) if isinstance(k_, str) else k_


def marginal_case(case):
    """{'items': [...], 'w': w, 'style'}: every ordered list of distinct qubits"""
    from orquestra.quantum.distributions import MeasurementOutcomeDistribution
    w = case["w"]
    d = MeasurementOutcomeDistribution(mk_input(case))
    snap = list(d.distribution_dict.items())
    tot = sum(F(x) for _, x in case["items"])
    k = 0
    for r in range(1, w + 1):
        for qs in itertools.permutations(range(w), r):
            sub = d.subdistribution(list(qs))
            k += 1
            exp = {}
            for b, x in case["items"]:
                key = tuple(b[q] for q in qs)
                exp[key] = exp.get(key, F(0)) + F(x) / tot
            got = sub.distribution_dict
            if list(d.distribution_dict.items()) != snap:
                return {"ok": False, "msg": "subdistribution(%s) modified the source distribution" % (list(qs),), "expected": str(snap), "observed": str(list(d.distribution_dict.items())),
                        "sig": "marginal:source-mutated", "ops": k}
            if set(got) != set(exp) or any(abs(got[key] - float(v)) > TOL for key, v in exp.items()):
                return {"ok": False, "msg": "subdistribution(%s) is not the marginal with qubits in the listed order" % (list(qs),), "expected": str({k2: float(v) for k2, v in exp.items()}),
                        "observed": str(got), "sig": "marginal:value", "ops": k}
            if abs(sum(got.values()) - 1) > TOL:
                return {"ok": False, "msg": "marginal is not normalised", "sig": "marginal:normalised", "ops": k}
    # the same source built with normalisation OFF (raw counts / partial weights kept as given): each projected outcome carries the SUM of the weights projecting to it, nothing is rescaled
    if tot != 1 and len(case["items"]) >= 2:
        import warnings
        with warnings.catch_warnings():
            warnings.simplefilter("ignore")
            raw = MeasurementOutcomeDistribution(mk_input(case), normalize=False)
            raw_snap = list(raw.distribution_dict.items())
            for qs in list(itertools.permutations(range(w), 1)) + list(itertools.permutations(range(w), min(2, w)))[:4]:
                sub = raw.subdistribution(list(qs))
                k += 1
                exp = {}
                for b, x in case["items"]:
                    key = tuple(b[q] for q in qs)
                    exp[key] = exp.get(key, F(0)) + F(x)
                got = sub.distribution_dict
                if set(got) != set(exp) or any(abs(got[key] - float(v)) > TOL * max(1.0, float(v)) for key, v in exp.items()):
                    return {"ok": False, "msg": "subdistribution(%s) of a source built with normalisation off: outcomes do not carry the sums of the projecting weights" % (list(qs),),
                            "expected": str({k2: float(v) for k2, v in exp.items()}), "observed": str(got), "sig": "marginal:unnormalised-source", "ops": k}
            if list(raw.distribution_dict.items()) != raw_snap:
                return {"ok": False, "msg": "subdistribution modified an unnormalised source", "sig": "marginal:source-mutated", "ops": k}
    for bad in ([0, 0], [w], [0, w + 1], [1, 0, 1][:max(2, min(3, w + 1))]):
        if len(set(bad)) == len(bad) and max(bad) < w:
            continue
        try:
            d.subdistribution(list(bad))
        except ValueError:
            continue
        except Exception as e:  # noqa: BLE001
            return {"ok": False, "msg": "subdistribution(%s) raised %s instead of ValueError" % (bad, type(e).__name__), "sig": "marginal:bad-arg-type", "ops": k}
        return {"ok": False, "msg": "subdistribution(%s) accepted duplicate / out-of-range qubits" % bad, "sig": "marginal:bad-arg", "ops": k}
    return {"ok": True, "nt": len({x for _, x in case["items"]}) >= 2, "ops": k, "out": "w%d" % w}


def wide_marginal_case(case):
    """{'w': width, 'ones': [[positions of 1s], weight]..., 'lists': [qubit lists]}: sparse distributions on registers wider than a machine word: outcomes that differ only in
    high positions stay different outcomes of the marginal"""
    from orquestra.quantum.distributions import MeasurementOutcomeDistribution
    w = case["w"]
    items = []
    for ones, x in case["ones"]:
        items.append((tuple(1 if q in ones else 0 for q in range(w)), x))
    tot = sum(F(x) for _, x in items)
    d = MeasurementOutcomeDistribution(dict(items))
    k = 0
    for qs in case["lists"]:
        qs = list(range(w)) if qs == "all" else list(range(w))[::-1] if qs == "reversed" else qs
        sub = d.subdistribution(list(qs))
        k += 1
        exp = {}
        for b, x in items:
            key = tuple(b[q] for q in qs)
            exp[key] = exp.get(key, F(0)) + F(x) / tot
        got = sub.distribution_dict
        if set(got) != set(exp) or any(abs(got[key] - float(v)) > TOL for key, v in exp.items()):
            return {"ok": False, "msg": "subdistribution on %d of %d subsystems is not the marginal (%d outcomes expected, %d returned)" % (len(qs), w, len(exp), len(got)), "sig": "marginal:wide", "ops": k}
    return {"ok": True, "nt": True, "ops": k, "out": "w%d" % w}


def mk_dist(desc):
    from orquestra.quantum.distributions import MeasurementOutcomeDistribution
    return MeasurementOutcomeDistribution({tuple(b): x for b, x in desc})


def entropy(p):
    return -sum(v * math.log(v) for v in p.values() if v > 0)


def distance_case(case):
    """{'p': desc, 'q': desc, 'sigma': s}"""
    from orquestra.quantum.distributions import compute_mmd, compute_clipped_negative_log_likelihood, compute_jensen_shannon_divergence
    p, q = mk_dist(case["p"]), mk_dist(case["q"])
    sp, sq = list(p.distribution_dict.items()), list(q.distribution_dict.items())
    sig = case["sigma"]
    if isinstance(sig, list) and not case.get("nonbinary"):
        # several kernel widths may be given as any sequence: list, tuple, numpy array - same value
        base = compute_mmd(p, q, {"sigma": list(sig)})
        for kind, sv in (("tuple", tuple(sig)), ("numpy array", np.array(sig, dtype=float))):
            alt = compute_mmd(p, q, {"sigma": sv})
            if abs(alt - base) > TOL or alt < -TOL:
                return {"ok": False, "msg": "squared MMD with the kernel widths %s given as a %s is %r, as a list %r" % (sig, kind, alt, base), "sig": "mmd:sigma-container"}
    if case.get("nonbinary"):
        # the MMD kernel is defined on integer-coded BIT strings; for other outcome alphabets the library refuses (ValueError) and nothing is claimed
        compute_mmd = lambda *a, **k: 0.0  # noqa: E731
    m1 = compute_mmd(p, q, {"sigma": sig})
    m2 = compute_mmd(q, p, {"sigma": sig})
    mpp = compute_mmd(p, mk_dist(case["p"]), {"sigma": sig})
    same = {tuple(b): x for b, x in case["p"] if x} == {tuple(b): x for b, x in case["q"] if x} and sum(x for _, x in case["p"]) == sum(x for _, x in case["q"])
    if abs(m1 - m2) > TOL:
        return {"ok": False, "msg": "squared MMD is not symmetric", "expected": m1, "observed": m2, "sig": "mmd:symmetry"}
    if m1 < -TOL:
        return {"ok": False, "msg": "squared MMD is negative", "observed": m1, "sig": "mmd:negative"}
    if abs(mpp) > TOL or abs(compute_mmd(p, p, {"sigma": sig})) > TOL:
        return {"ok": False, "msg": "squared MMD between a distribution and itself (or an equal copy) is not zero", "observed": mpp, "sig": "mmd:self"}
    if same and abs(m1) > TOL:
        return {"ok": False, "msg": "squared MMD between equal distributions (different insertion order) is not zero", "observed": m1, "sig": "mmd:equal"}
    eps = case.get("eps", 1e-9)
    # ONE parameter dictionary is shared by all calls below, as a caller looping over distributions would do
    params = {"epsilon": eps, "sigma": sig}
    params_before = dict(params)
    nll = compute_clipped_negative_log_likelihood(p, q, params)
    if params != params_before:
        return {"ok": False, "msg": "compute_clipped_negative_log_likelihood modified the caller's parameter dictionary", "expected": str(params_before), "observed": str(params), "sig": "distance:params-mutated"}
    K = len(set(p.distribution_dict) | set(q.distribution_dict))
    if nll < entropy(p.distribution_dict) - math.log(1 + K * eps) - 1e-9:
        return {"ok": False, "msg": "clipped negative log-likelihood is below the target's entropy", "expected": ">= %r" % entropy(p.distribution_dict), "observed": nll, "sig": "nll:gibbs"}
    exp_nll = -sum(v * math.log(max(eps, q.distribution_dict.get(k2, 0))) for k2, v in p.distribution_dict.items())
    if abs(nll - exp_nll) > 1e-9:
        return {"ok": False, "msg": "clipped negative log-likelihood differs from its definition", "expected": exp_nll, "observed": nll, "sig": "nll:value"}
    j1 = compute_jensen_shannon_divergence(p, q, params)
    j2 = compute_jensen_shannon_divergence(q, p, params)
    if params != params_before:
        return {"ok": False, "msg": "compute_jensen_shannon_divergence modified the caller's parameter dictionary", "expected": str(params_before), "observed": str(params), "sig": "distance:params-mutated"}
    if abs(j1 - j2) > 1e-9:
        return {"ok": False, "msg": "symmetrised divergence is not symmetric (epsilon=%s)" % eps, "expected": j1, "observed": j2, "sig": "js:symmetry"}
    if abs(compute_clipped_negative_log_likelihood(p, q, params) - nll) > 0 or abs(compute_mmd(p, q, params) - m1) > TOL:
        return {"ok": False, "msg": "the same distance with the same (shared) parameter dictionary gives a different value the second time", "sig": "distance:repeat"}
    if list(p.distribution_dict.items()) != sp or list(q.distribution_dict.items()) != sq:
        return {"ok": False, "msg": "a distance function modified its arguments", "sig": "distance:mutated"}
    return {"ok": True, "nt": not same, "ops": 6, "out": "same" if same else "diff"}


def wide_mmd_case(case):
    """{'n': width, 'sigma': s, 'pair': k}: squared MMD of sparse distributions on wide registers (outcome codes of 16-130 bits): finite, symmetric, non-negative, zero on (p, p), and
    equal to the definition sum_ij d_i d_j k(|x_i - x_j|^2) evaluated with exact integer codes"""
    from orquestra.quantum.distributions import MeasurementOutcomeDistribution, compute_mmd
    n, sig = case["n"], case["sigma"]
    hi, lo, ones = tuple([1] + [0] * (n - 1)), tuple([0] * (n - 1) + [1]), tuple([1] * n)
    mid = tuple([0] * (n // 2) + [1] + [0] * (n - n // 2 - 1))
    hi2 = tuple([1] + [0] * (n - 2) + [1])          # differs from hi in the LOWEST bit only
    zero = tuple([0] * n)
    pairs = [({hi: 1, lo: 1}, {hi: 1, ones: 3}), ({zero: 2, mid: 1, hi: 1}, {lo: 1, hi: 2}), ({hi: 1, hi2: 1}, {hi2: 1, zero: 1}), ({ones: 1}, {zero: 1}), ({hi: 3, mid: 2, lo: 1}, {hi: 3, mid: 2, lo: 1})]
    dp, dq = pairs[case["pair"]]
    p_, q_ = MeasurementOutcomeDistribution(dict(dp)), MeasurementOutcomeDistribution(dict(dq))
    sigs = list(sig) if isinstance(sig, list) else [sig]

    def ref(a, b):
        keys = sorted(set(a.distribution_dict) | set(b.distribution_dict))
        code = [int("".join(map(str, k_)), 2) for k_ in keys]
        d = [a.distribution_dict.get(k_, 0) - b.distribution_dict.get(k_, 0) for k_ in keys]
        tot = 0.0
        for i, ci in enumerate(code):
            for j, cj in enumerate(code):
                dist2 = (ci - cj) ** 2          # exact Python integer
                kern = sum(math.exp(-min(float(dist2) / (2 * s_), 745.0)) if float(dist2) / (2 * s_) < 745 else 0.0 for s_ in sigs) / len(sigs)
                tot += d[i] * d[j] * kern
        return tot
    try:
        m1, m2, mpp = compute_mmd(p_, q_, {"sigma": sig}), compute_mmd(q_, p_, {"sigma": sig}), compute_mmd(p_, p_, {"sigma": sig})
    except Exception as e:  # noqa: BLE001
        return {"ok": False, "msg": "squared MMD on a %d-subsystem register raises %s: %s" % (n, type(e).__name__, str(e)[:100]), "sig": "mmd-wide:exception"}
    for nm, v in (("MMD(p,q)", m1), ("MMD(q,p)", m2), ("MMD(p,p)", mpp)):
        if not (v == v) or abs(v) == float("inf"):
            return {"ok": False, "msg": "%s on a %d-subsystem register with kernel width %s is %r" % (nm, n, sig, v), "sig": "mmd-wide:nan"}
    if abs(m1 - m2) > TOL:
        return {"ok": False, "msg": "squared MMD on a %d-subsystem register is not symmetric" % n, "expected": m1, "observed": m2, "sig": "mmd-wide:symmetry"}
    if m1 < -TOL:
        return {"ok": False, "msg": "squared MMD on a %d-subsystem register with kernel width %s is negative" % (n, sig), "observed": m1, "sig": "mmd-wide:negative"}
    if abs(mpp) > TOL:
        return {"ok": False, "msg": "squared MMD between a distribution on %d subsystems and itself is not zero" % n, "observed": mpp, "sig": "mmd-wide:self"}
    r_ = ref(p_, q_)
    if abs(m1 - r_) > 1e-9:
        return {"ok": False, "msg": "squared MMD on a %d-subsystem register with kernel width %s differs from its definition" % (n, sig), "expected": r_, "observed": m1, "sig": "mmd-wide:value"}
    return {"ok": True, "nt": case["pair"] != 4, "ops": 4, "out": "n%d" % n}


def io_case(case):
    from orquestra.quantum import distributions as D
    ds = [mk_dist(x) for x in case["dists"]]
    wd = tempfile.mkdtemp(prefix="c17.", dir="/dev/shm" if os.path.isdir("/dev/shm") else "/var/tmp")
    try:
        p = os.path.join(wd, "d.json")
        D.save_measurement_outcome_distribution(ds[0], p)
        a = D.load_measurement_outcome_distribution(p)
        with open(p) as f:
            a2 = D.load_measurement_outcome_distribution(f)
        q = os.path.join(wd, "ds.json")
        D.save_measurement_outcome_distributions(ds, q)
        b = D.load_measurement_outcome_distributions(q)
    finally:
        shutil.rmtree(wd, ignore_errors=True)
    for got, exp in [(a, ds[0]), (a2, ds[0])] + list(zip(b, ds)):
        if got.distribution_dict != exp.distribution_dict:
            return {"ok": False, "msg": "save/load changed keys or probabilities", "expected": str(exp.distribution_dict), "observed": str(got.distribution_dict), "sig": "io"}
    if len(b) != len(ds):
        return {"ok": False, "msg": "list of distributions changed length", "sig": "io:length"}
    return {"ok": True, "nt": True, "ops": 3, "out": "io"}


FUNCS = {"near_normalised": near_case, "mmd_wide": wide_mmd_case, "marginals_wide": wide_marginal_case, "constructor": ctor_case, "marginals": marginal_case, "distances": distance_case, "save_load": io_case}


def weight_dicts(w, maxw):
    B = [list(b) for b in itertools.product((0, 1), repeat=w)]
    out = []
    for ws in itertools.product(range(maxw + 1), repeat=len(B)):
        items = [[b, x] for b, x in zip(B, ws) if x is not None]
        if sum(ws) == 0:
            continue
        out.append(items)
    return out


def run(run):
    deep = run.tier == "thorough"      # the former thorough bounds are the quick tier now
    thorough = True
    cc = []
    for w in ((1, 2, 3) if thorough else (1, 2)):
        for items in weight_dicts(w, 3 if w <= 2 else (2 if thorough else 1)):
            for style in ("tuple", "str", "comma"):
                cc.append({"items": items, "style": style, "valid": True})
            # subsets of the keys (zero-weight keys dropped) and reversed insertion order
            nz = [it for it in items if it[1] > 0]
            cc.append({"items": nz[::-1], "style": "tuple", "valid": True})
    for wk in ("int64", "uint16", "float32", "float64", "int8"):
        cc += [{"items": it_, "style": st_, "valid": True, "wkind": wk} for it_ in ([[[0, 1], 1], [[1, 1], 3]], [[[0, 0], 2], [[0, 1], 0], [[1, 0], 5], [[1, 1], 1]], [[[1], 4]]) for st_ in ("tuple", "str")]
    cc += [{"items": [[[0, 1], 0.25], [[1, 1], 0.75]], "style": "str", "valid": True}, {"items": [[[0, 2], 1], [[3, 1], 2]], "style": "comma", "valid": True},
           {"items": [[[0], 0.1], [[1], 0.2]], "style": "tuple", "valid": True}]
    for style in ("tuple", "comma"):   # multi-digit entries: a comma-separated key is split on the commas, nothing else
        cc += [{"items": [[[0, 10], 1], [[12, 1], 2]], "style": style, "valid": True}, {"items": [[[10, 0], 1], [[1, 0], 3], [[0, 1], 2]], "style": style, "valid": True},
               {"items": [[[1, 0, 11], 2], [[10, 1, 1], 1], [[1, 1, 0], 1]], "style": style, "valid": True}]
    bad = [([], "empty"), ([[[0, 1], -1], [[1, 1], 3]], "negative weight"), ([[[0, 0], -1], [[1, 1], -3]], "all weights negative"), ([[[0], 1], [[1, 1], 1]], "unequal key lengths"),
           ([[[0, 0], -0.5]], "single negative"), ([[[0, 1], 1], [[1, 1], -1e-3]], "small negative"),
           ([[[0, 1], 1.0], [[1, 1], -1e-13]], "tiny negative weight"), ([[[0, 1], 0.5], [[1, 0], 0.5], [[1, 1], -1e-15]], "tiny negative weight next to weights summing to 1"),
           ([[[0], -1e-300], [[1], 1.0]], "denormal-size negative weight")]
    # ragged keys whose lengths average to the first key's length, in every insertion order; a single longer / shorter key among many
    for perm in itertools.permutations([[[0, 1], 1], [[0], 2], [[0, 1, 1], 3]]):
        bad.append(([list(x) for x in perm], "three keys of lengths 1, 2, 3"))
    for perm in itertools.permutations([[[0, 0], 1], [[1, 1], 1], [[1], 2], [[1, 0, 1], 2]]):
        bad.append(([list(x) for x in perm], "lengths 2, 2, 1, 3"))
    bad += [([[[0, 0, 0], 1], [[0, 1, 0], 1], [[1, 1], 1], [[1, 0, 0, 1], 1], [[1, 1, 1], 1]], "one short and one long key among five"), ([[[0, 1], 1], [[], 1]], "an empty key")]
    for items, why in bad:
        for style in ("tuple", "str"):
            cc.append({"items": items, "style": style, "valid": False, "why": why})
    cc.append({"items": [[[0.5, 1], 1]], "style": "tuple", "valid": False, "why": "non-integer key entry"})
    cc.append({"items": [[[-1, 1], 1]], "style": "tuple", "valid": False, "why": "negative key entry"})
    nc = [{"weights": ws, "delta": dl, "style": st} for ws in ([1, 3], [1, 2, 3, 4], [5, 1, 1, 1, 1, 1, 1, 1], [1, 1], [7, 0, 2, 1]) for dl in (1e-5, -1e-5, 3e-6, -1e-6, 5e-7, 1e-7, -1e-7, 2e-8, -1e-8, 1e-12, 0.0)
          for st in ("tuple", "str")] + [{"weights": ws, "delta": 0.0, "f32": True} for ws in ([1, 3], [1, 2, 3, 4], [1, 1, 1], [3, 3, 1, 2, 2, 7, 9, 11], [0.1, 0.2, 0.3, 0.4])]
    secs = [Section("near_normalised", nc, near_case, desc="almost normalised input (total 1 +- 1e-5 ... 1e-8, float32-rounded probabilities): the object sums to 1 by the library's own rule and keeps the proportions")]
    secs += [Section("constructor", cc, ctor_case, desc="normalisation, proportions, caller's dict untouched, rejections")]
    mc_ = []
    W = 6 if deep else 5
    for w in range(1, W + 1):
        B = [list(b) for b in itertools.product((0, 1), repeat=w)]
        # distinct weights (so every mis-projection shows), a sparse support, and a uniform one
        mc_.append({"items": [[b, i + 1] for i, b in enumerate(B)], "w": w, "style": "tuple"})
        mc_.append({"items": [[b, (i * 7) % 5 + 1] for i, b in enumerate(B) if i % 3 != 1] or [[B[0], 1]], "w": w, "style": "str"})
        mc_.append({"items": [[b, 1] for b in B], "w": w, "style": "comma"})
        if w <= 2:
            mc_ += [{"items": it, "w": w, "style": "tuple"} for it in weight_dicts(w, 2)]
    mc_ += [{"items": [[[0, 10, 2], 1], [[12, 1, 2], 2], [[0, 1, 0], 3], [[12, 10, 0], 4]], "w": 3, "style": st} for st in ("tuple", "comma")]
    mc_ += [{"items": [[[1, 10], 1], [[11, 0], 2]], "w": 2, "style": st} for st in ("tuple", "comma")]   # concatenated digits would coincide: '110'
    mc_ += [{"items": [[[1, 10, 1], 1], [[11, 0, 1], 2], [[1, 1, 1], 4]], "w": 3, "style": "tuple"}]
    wm = []
    for w in ((40, 66, 72, 130) if deep else (40, 72)):
        wstate = [[[q], q + 1] for q in range(w)]                                   # W-state-like: one 1 at every position, pairwise different weights
        high = [[[w - 1], 1], [[w - 2], 2], [[w - 1, w - 2], 3], [[], 4], [[0], 5], [[0, w - 1], 6]]
        lists = ["all", "reversed", list(range(w - 4, w)), [w - 1, 0], list(range(0, w, 2)), list(range(1, w))]
        wm += [{"w": w, "ones": wstate, "lists": lists}, {"w": w, "ones": high, "lists": lists}]
    secs.append(Section("marginals_wide", wm, wide_marginal_case, horizon=300, desc="sparse distributions on 40-72 (thorough 130) subsystems: marginals on all / the top four / every other subsystem"))
    secs.append(Section("marginals", mc_, marginal_case, horizon=300, desc="subdistribution on every ordered list of distinct qubits vs exact marginals; source untouched"))
    pool = []
    for items in weight_dicts(2, 3 if deep else 2):
        nz = [it for it in items if it[1] > 0]
        pool.append(nz)
    pool = pool[:: (1 if thorough else 2)]
    base = pool[: (300 if deep else 200)]
    rev = [p[::-1] for p in base if len(p) >= 2][:: (2 if thorough else 3)]          # equal distributions, other insertion order
    rot = [p[1:] + p[:1] for p in base if len(p) >= 3][::3]
    zero = [[[b, x] for b, x in p] + [[[1, 1], 0]] for p in base[:6] if all(b != [1, 1] for b, _ in p)]   # explicit zero-weight key
    pool = base + rev + rot + zero
    sig = [0.5, 1, 2, [1, 2], 0.1, [0.25, 1, 4], [0.5, 1, 2, 4]] if deep else [0.5, 1, 2, [1, 2], [0.5, 1, 2, 4]]
    dc = [{"p": a, "q": b, "sigma": s} for a in pool for b in pool for s in sig]
    dc += [{"p": a, "q": b, "sigma": 1, "eps": e} for a in pool for b in pool for e in ((0.05, 1e-3, 0.3) if thorough else (0.05,))]   # a clipping constant that actually clips
    # outcomes of non-binary subsystems with multi-digit entries
    qpool = [[[[0, 10], 1], [[12, 1], 2]], [[[12, 1], 1], [[0, 10], 1], [[3, 0], 2]], [[[3, 0], 1]], [[[0, 10], 3], [[3, 0], 1]]]
    dc += [{"p": a, "q": b, "sigma": 1, "nonbinary": True, "eps": e} for a in qpool for b in qpool for e in (1e-9, 0.05)]
    wm_ = [{"n": n_, "sigma": sg, "pair": k_} for n_ in ((12, 15, 16, 17, 20, 24, 31, 32, 33, 34, 40, 53, 54, 62, 63, 64, 65, 70, 100, 130) if thorough else (15, 16, 17, 24, 31, 32, 33, 40, 54, 63, 64, 65, 70, 130))
           for sg in (1.0, [1.0, 4.0], 0.5, 1e9, 1e18, [1e12, 1e30], 1e40) for k_ in range(5)]
    secs.append(Section("mmd_wide", wm_, wide_mmd_case, desc="squared MMD of sparse distributions on registers of 15-130 subsystems x 7 kernel widths: finite, symmetric, non-negative, zero on (p,p), equal to the definition with exact integer codes"))
    secs.append(Section("distances", dc, distance_case, desc="MMD / clipped NLL / JS laws on all ordered pairs of a %d-distribution pool" % len(pool)))
    secs.append(Section("save_load", [{"dists": [a, b]} for a in pool[::4] for b in pool[1::9]] + [{"dists": [z, pool[0]]} for z in zero] + [{"dists": [pool[1], z, z]} for z in zero[:2]] + [{"dists": [a, b]} for a in qpool for b in qpool[:2]], io_case, desc="save_/load_measurement_outcome_distribution(s)"))
    run.run_sections(secs)
