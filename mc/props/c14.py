"""C14 - runners validate requests, deliver enough shots and count their work correctly (E2 over call histories)."""
import hashlib
import itertools
import json
import os
import shutil
import tempfile

import numpy as np

from mc.engine import Section, jdump
from mc.gates import G, mk_circuit
from mc.ref import runner as R
from mc.ref import linalg as L
from mc import seams

RULE = ("TLC cross-check: the complete state graph of an independently written TLA+ counter model is dumped and EVERY edge replayed on the real classes; every history of <=D calls (run_and_measure / run_batch_and_measure / get_measurement_outcome_distribution with valid and invalid "
        "arguments) on every runner kind: a BaseCircuitRunner mock (exact and surplus shots), SymbolicSimulator, a BaseWavefunctionSimulator "
        "subclass with the default native predicate, and MeasurementTrackingBackend around them (with/without bitstring recording). After every "
        "call: exception iff the request is invalid, execution log, counters of every layer, results (count, order, shots, widths, identity through "
        "the tracker) and the tracker's JSON file are compared with the reference model. Histories are NOT merged (hidden state such as caches "
        "must not hide); 'states' counts distinct (counters, file hash) snapshots. non-trivial = history with a valid call that executes >= 1 circuit")
RULE += ' Also: a circuit with two consecutive non-gate operations (one non-native segment).'
RULE += ' Round 7: a circuit whose third of five segments fails on the base-class simulator (segments never started are not counted); the tracker file re-named between calls.'
RULE += ' Round 6: requests that fail in the backend part-way through a batch (counters grow by the completed work and never go back, also relative to readings taken during the call).'
RULE += ' Round 5: batches of 63-130 circuits on every runner kind.'
ASSUMPTIONS = ["sampling randomness is scripted (default answers); counters are observed through n_circuits_executed / n_jobs_executed",
               "zero-width circuits are outside the alphabet; a batch containing an unbound circuit / a circuit the backend refuses is judged in the partial_failures section only (completed work counted, failure surfaced)", "what the tracker's own job counter does for a batch / a distribution call is not fixed by the statement: only monotonicity is required there"]
BOUNDS = {"quick": {"history_depth": 2, "events": "full menu"}, "thorough": {"history_depth": 3, "events": "full menu at depth<=2, core menu at depth 3"}}

CIRCUITS = [
    {"ops": [], "n": 2, "bound": True},
    {"ops": [{"gate": G("X"), "q": [0]}], "n": 3, "bound": True},
    {"ops": [{"gate": G("X"), "q": [1]}, {"gate": G("CNOT"), "q": [1, 0]}], "n": 2, "bound": True},
    {"ops": [{"gate": G("T"), "q": [0]}, {"mp": [0.1, 0.2]}, {"gate": G("T"), "q": [0]}], "n": 1, "bound": True},
    {"ops": [{"gate": G("RX", "s:theta"), "q": [0]}], "n": 1, "bound": False},
    {"ops": [{"gate": G("X"), "q": [0]}], "n": 1, "bound": True},
    {"ops": [], "n": 1, "bound": True},
    # two CONSECUTIVE non-gate operations form one non-native segment (one job), between two native ones
    {"ops": [{"gate": G("T"), "q": [0]}, {"mp": [0.1, 0.2]}, {"mp": [0.3, -0.2]}, {"gate": G("X"), "q": [0]}], "n": 1, "bound": True},
]
for _c in CIRCUITS:
    _c["n_ops"] = len(_c["ops"])
    runs = [k for k, _ in itertools.groupby(_c["ops"], key=lambda o: "mp" not in o)]
    _c["segments"] = len(runs)
    _c["native_segments"] = sum(1 for k in runs if k)

KINDS = ["mock", "mock_more", "mock_batch", "symbolic", "basesim", "track:mock", "track:mock:bits", "track:symbolic", "track:basesim:bits",
         # a wrapped runner that legitimately returns MORE shots than requested: the record must describe what was returned
         "track:mock_more", "track:mock_more:bits", "track:mock_batch"]


def make_runner(kind, circuits, workdir):
    """returns (runner under test, innermost runner, execution log, proxy or None)"""
    from orquestra.quantum.api.circuit_runner import BaseCircuitRunner
    from orquestra.quantum.api.wavefunction_simulator import BaseWavefunctionSimulator
    from orquestra.quantum.circuits import GateOperation
    from orquestra.quantum.measurements import Measurements
    from orquestra.quantum.runners.symbolic_simulator import SymbolicSimulator
    from orquestra.quantum.runners.trackers import MeasurementTrackingBackend
    log = []
    ids = {id(c): i for i, c in enumerate(circuits)}

    class Mock(BaseCircuitRunner):
        surplus = 0
        poison = None          # index of a circuit the backend refuses (used by the TLC edge replay only)

        def _run_and_measure(self, circuit, n_samples):
            if self.poison is not None and ids.get(id(circuit)) == self.poison:
                raise RuntimeError("backend refused circuit %d" % self.poison)
            log.append((ids.get(id(circuit), -1), n_samples))
            i = ids.get(id(circuit), 0)
            return Measurements([tuple((i + k) % 2 for k in range(circuit.n_qubits))] * (n_samples + self.surplus))

    class MockMore(Mock):
        surplus = 2

    class MockBatch(Mock):
        """a runner with a dedicated batch implementation (the documented extension point): one job per batch, counted by the subclass itself"""
        def _run_batch_and_measure(self, batch, samples_per_circuit):
            out = []
            for c, n in zip(batch, samples_per_circuit):
                out.append(self._run_and_measure(c, n))
            self._n_circuits_executed += len(batch)
            self._n_jobs_executed += 1
            return out

    class BaseSim(BaseWavefunctionSimulator):
        def _get_wavefunction_from_native_circuit(self, circuit, initial_state):
            log.append(("native", len(circuit.operations)))
            s = np.asarray(initial_state, dtype=complex)
            for o in circuit.operations:
                s = L.embed(np.array(o.gate.matrix, dtype=complex), tuple(o.qubit_indices), circuit.n_qubits) @ s
            return s

    class LoggedSymbolic(SymbolicSimulator):
        # the execution log of the bundled simulator: one entry per native-circuit evaluation (no behaviour is changed)
        def _get_wavefunction_from_native_circuit(self, circuit, initial_state):
            log.append(("native", len(circuit.operations)))
            return super()._get_wavefunction_from_native_circuit(circuit, initial_state)

    k = R.inner_kind(kind)
    inner = {"mock": Mock, "mock_more": MockMore, "mock_batch": MockBatch, "symbolic": lambda: LoggedSymbolic(seed=3), "basesim": lambda: BaseSim(seed=3)}[k]()
    if not kind.startswith("track"):
        return inner, inner, log, None

    class Proxy:
        """records what the wrapped runner returned; pure delegation"""
        def __init__(self, target):
            self._t, self.returns = target, []

        def run_and_measure(self, circuit, n_samples):
            r = self._t.run_and_measure(circuit, n_samples)
            self.returns.append(r)
            return r

        def run_batch_and_measure(self, batch, n_samples):
            r = self._t.run_batch_and_measure(batch, n_samples)
            self.returns.append(r)
            return r

        def get_measurement_outcome_distribution(self, circuit, n_samples):
            r = self._t.get_measurement_outcome_distribution(circuit, n_samples)
            self.returns.append(r)
            return r

        @property
        def n_jobs_executed(self):
            return self._t.n_jobs_executed

        @property
        def n_circuits_executed(self):
            return self._t.n_circuits_executed

    proxy = Proxy(inner)
    tr = MeasurementTrackingBackend(proxy, os.path.join(workdir, "raw.json"), record_bitstrings=kind.endswith(":bits"))
    return tr, inner, log, proxy


def file_state(workdir):
    p = os.path.join(workdir, "raw.json")
    if not os.path.exists(p):
        return None
    return open(p, "rb").read()


def check_result(ev, res, circuits_desc):
    """one result per circuit, in order, >= requested shots, bitstrings as long as the register"""
    from orquestra.quantum.measurements import Measurements
    if ev[0] == "dist":
        w = circuits_desc[ev[1]]["n"]
        keys = list(res.distribution_dict.keys())
        if any(len(k) != w for k in keys) or abs(sum(res.distribution_dict.values()) - 1) > 1e-9:
            return "distribution keys are not as long as the register / not normalised"
        return None
    want = R.executed("mock", ev, circuits_desc)
    results = [res] if ev[0] == "run" else list(res)
    if len(results) != len(want):
        return "%d results for %d circuits" % (len(results), len(want))
    for (ci, n), m in zip(want, results):
        if not isinstance(m, Measurements):
            return "result is not a Measurements object"
        if len(m.bitstrings) < n:
            return "circuit %d: %d shots delivered, %d requested" % (ci, len(m.bitstrings), n)
        if any(len(b) != circuits_desc[ci]["n"] for b in m.bitstrings):
            return "circuit %d: bitstring length differs from the register width %d (results out of order?)" % (ci, circuits_desc[ci]["n"])
    return None


def history_case(case):
    """{'kind': runner kind, 'hist': [events]}"""
    from orquestra.quantum.circuits import circuit_from_dict
    kind = case["kind"]
    circuits = [mk_circuit(c) for c in CIRCUITS]
    workdir = tempfile.mkdtemp(prefix="c14.", dir=os.environ.get("VERIF_SCRATCH", "/dev/shm" if os.path.isdir("/dev/shm") else "/var/tmp"))
    states = []
    executed_any = False
    try:
        runner, inner, log, proxy = make_runner(kind, circuits, workdir)
        tracked = proxy is not None
        for step_no, ev in enumerate(case["hist"]):
            valid, why = R.request_valid(kind, ev, CIRCUITS)
            before = (runner.n_circuits_executed, runner.n_jobs_executed, inner.n_circuits_executed, inner.n_jobs_executed, len(log), file_state(workdir),
                      len(proxy.returns) if tracked else 0)
            exc = None
            res = None
            with seams.owned_rng(seams.Script()):
                try:
                    if ev[0] == "run":
                        res = runner.run_and_measure(circuits[ev[1]], ev[2])
                    elif ev[0] == "batch":
                        res = runner.run_batch_and_measure([circuits[i] for i in ev[1]], ev[2] if isinstance(ev[2], int) else list(ev[2]))
                    else:
                        res = runner.get_measurement_outcome_distribution(circuits[ev[1]], ev[2])
                except seams.UnownedRandomness:
                    raise
                except Exception as e:  # noqa: BLE001
                    exc = e
            after = (runner.n_circuits_executed, runner.n_jobs_executed, inner.n_circuits_executed, inner.n_jobs_executed, len(log), file_state(workdir),
                     len(proxy.returns) if tracked else 0)
            where = "call %d %s on %s" % (step_no + 1, ev, kind)
            if any(a < b for a, b in zip(after[:4], before[:4])):
                return {"ok": False, "msg": where + ": a counter decreased", "expected": str(before[:4]), "observed": str(after[:4]), "sig": "counters:decreased"}
            if not valid:
                if exc is None:
                    return {"ok": False, "msg": where + ": invalid request (%s) was accepted" % why, "sig": "validation:accepted"}
                if why in ("non-positive sample count", "per-circuit list of the wrong length", "non-positive entry") and not isinstance(exc, ValueError):
                    return {"ok": False, "msg": where + ": invalid request (%s) raised %s instead of ValueError" % (why, type(exc).__name__), "sig": "validation:type"}
                if after[4] != before[4]:
                    return {"ok": False, "msg": where + ": something was executed before the request (%s) was rejected" % why, "expected": "execution log length %d" % before[4],
                            "observed": "execution log %s" % (log[before[4]:],), "sig": "validation:executed"}
                if after[:4] != before[:4]:
                    return {"ok": False, "msg": where + ": counters changed by a rejected call (%s)" % why, "expected": str(before[:4]), "observed": str(after[:4]), "sig": "counters:rejected"}
                if after[5] != before[5]:
                    return {"ok": False, "msg": where + ": tracker file changed by a rejected call", "sig": "tracker:file-rejected"}
                continue
            if exc is not None:
                return {"ok": False, "msg": where + ": valid request raised %s: %s" % (type(exc).__name__, exc), "sig": "valid:raised"}
            bad = check_result(ev, res, CIRCUITS)
            if bad:
                return {"ok": False, "msg": where + ": " + bad, "observed": str(res)[:300], "sig": "results"}
            dc, dj = R.inner_counter_delta(kind, ev, CIRCUITS)
            if (after[2] - before[2], after[3] - before[3]) != (dc, dj):
                return {"ok": False, "msg": where + ": executed-circuits/jobs counters of the %s runner grew by %s, work actually run is %s" % (
                    R.inner_kind(kind), (after[2] - before[2], after[3] - before[3]), (dc, dj)), "sig": "counters:delta"}
            if dc:
                executed_any = True
            # execution log: what was actually run
            k = R.inner_kind(kind)
            new_log = log[before[4]:]
            if k in ("mock", "mock_more", "mock_batch"):
                want = [(ci, n) for ci, n in R.executed(kind, ev, CIRCUITS)]
                if new_log != want:
                    return {"ok": False, "msg": where + ": circuits executed differ from the request (order / shots)", "expected": str(want), "observed": str(new_log), "sig": "execution"}
            else:
                want_n = sum((CIRCUITS[ci]["native_segments"] if k == "basesim" else (1 if CIRCUITS[ci]["n_ops"] else 0)) for ci, _ in R.executed(kind, ev, CIRCUITS))
                if len(new_log) != want_n:
                    return {"ok": False, "msg": where + ": %d native evaluations, expected %d" % (len(new_log), want_n), "sig": "execution:native"}
            if tracked:
                td = R.tracker_counter_delta(ev)
                if td is not None and after[0] - before[0] != td[0]:
                    return {"ok": False, "msg": where + ": tracker's circuit counter grew by %d for %d circuits" % (after[0] - before[0], td[0]), "sig": "tracker:counters"}
                if after[6] != before[6] + 1:
                    return {"ok": False, "msg": where + ": wrapped runner was called %d times" % (after[6] - before[6]), "sig": "tracker:calls"}
                inner_ret = proxy.returns[-1]
                same = (res is inner_ret) or (ev[0] == "batch" and len(res) == len(inner_ret) and all(a is b for a, b in zip(res, inner_ret)))
                if not same:
                    return {"ok": False, "msg": where + ": tracker did not return exactly what the wrapped runner returned", "sig": "tracker:result-identity"}
                raw = after[5]
                try:
                    data = json.loads(raw.decode())["raw-data"]
                except Exception as e:  # noqa: BLE001
                    return {"ok": False, "msg": where + ": tracker file does not parse: %s" % e, "sig": "tracker:file"}
                results = [res] if ev[0] != "batch" else list(res)
                cis = [ci for ci, _ in R.executed(kind, ev, CIRCUITS)]
                if len(data) != len(results):
                    return {"ok": False, "msg": where + ": %d records written for %d results" % (len(data), len(results)), "sig": "tracker:records"}
                for rec, m, ci in zip(data, results, cis):
                    if circuit_from_dict(rec["circuit"]) != circuits[ci] or circuit_from_dict(rec["circuit"]).n_qubits != CIRCUITS[ci]["n"]:
                        return {"ok": False, "msg": where + ": recorded circuit is not the circuit that was run", "expected": str(circuits[ci]),
                                "observed": str(circuit_from_dict(rec["circuit"])), "sig": "tracker:record-circuit"}
                    if rec["number_of_gates"] != CIRCUITS[ci]["n_ops"]:
                        return {"ok": False, "msg": where + ": recorded number_of_gates", "sig": "tracker:record-gates"}
                    if ev[0] == "dist":
                        if rec["number_of_shots"] != ev[2]:
                            return {"ok": False, "msg": where + ": recorded shot number of a distribution call", "sig": "tracker:record-shots"}
                        continue
                    if rec["counts"] != m.get_counts() or rec["number_of_shots"] != len(m.bitstrings):
                        return {"ok": False, "msg": where + ": record does not match the returned measurements", "expected": str((m.get_counts(), len(m.bitstrings))),
                                "observed": str((rec["counts"], rec["number_of_shots"])), "sig": "tracker:record-counts"}
                    if kind.endswith(":bits"):
                        if [tuple(b) for b in rec.get("bitstrings", [])] != [tuple(map(int, b)) for b in m.bitstrings]:
                            return {"ok": False, "msg": where + ": recorded bitstrings differ from the returned ones", "sig": "tracker:record-bitstrings"}
                    elif "bitstrings" in rec:
                        return {"ok": False, "msg": where + ": bitstrings recorded although recording is off", "sig": "tracker:record-bitstrings-off"}
            states.append((after[:4], hashlib.md5(after[5] or b"").hexdigest()))
        key = jdump([kind, states[-1] if states else "init"])
        return {"ok": True, "key": key, "nt": executed_any, "ops": len(case["hist"]), "out": kind}
    finally:
        shutil.rmtree(workdir, ignore_errors=True)


LABEL_EVENT = {"RunOk": ["run", 1, 2], "RunBad": ["run", 1, 0], "BatchOk0": ["batch", [], 3], "BatchOk1": ["batch", [2], 2], "BatchOk2": ["batch", [1, 2], [2, 3]],
               "BatchOk3": ["batch", [2, 0, 5], 2], "BatchBadLength": ["batch", [1, 2], [2]], "BatchBadEntry": ["batch", [1, 2], [3, 0]], "DistOk": ["dist", 2, 2], "DistBad": ["dist", 2, 0],
               # the backend refuses circuit 8 (appended for the replay): validation passes, execution fails part-way
               "RunFail": ["run", 8, 2], "BatchFail0of2": ["batch", [8, 1], 2], "BatchFail2of3": ["batch", [1, 2, 8], [2, 3, 1]]}


def tlc_edge_case(case):
    """one edge of the TLC state graph of models/RunnerCounters.tla: replay a shortest path to its source on the real classes
    (MeasurementTrackingBackend around a BaseCircuitRunner mock), take the edge's action, compare all four counters with the target state"""
    circuits = [mk_circuit(c) for c in CIRCUITS] + [mk_circuit({"ops": [{"gate": G("X"), "q": [1]}], "n": 2})]
    workdir = tempfile.mkdtemp(prefix="c14t.", dir=os.environ.get("VERIF_SCRATCH", "/dev/shm" if os.path.isdir("/dev/shm") else "/var/tmp"))
    try:
        runner, inner, log, proxy = make_runner("track:mock", circuits, workdir)
        inner.poison = 8

        def fire(label):
            ev = LABEL_EVENT[label]
            try:
                if ev[0] == "run":
                    runner.run_and_measure(circuits[ev[1]], ev[2])
                elif ev[0] == "batch":
                    runner.run_batch_and_measure([circuits[i] for i in ev[1]], ev[2])
                else:
                    runner.get_measurement_outcome_distribution(circuits[ev[1]], ev[2])
                return None
            except ValueError as e:
                return e
            except RuntimeError as e:
                if "Fail" in label and "backend refused" in str(e):
                    return e
                raise

        def counters():
            return {"tc": runner.n_circuits_executed, "tj": runner.n_jobs_executed, "ic": inner.n_circuits_executed, "ij": inner.n_jobs_executed}
        for l in case["path"]:
            fire(l)
        if counters() != case["src"]:
            return {"ok": False, "msg": "replaying the model path %s does not reach the model state" % case["path"], "expected": str(case["src"]), "observed": str(counters()), "sig": "tlc:path"}
        exc = fire(case["label"])
        if "Fail" in case["label"]:
            # a backend failure: it must surface; the wrapped runner's counters are exactly the model's, the wrapper's must not have decreased
            now = counters()
            if exc is None:
                return {"ok": False, "msg": "model action %s: the backend failed but the call returned normally" % case["label"], "sig": "tlc:failure-swallowed"}
            if (now["ic"], now["ij"]) != (case["dst"]["ic"], case["dst"]["ij"]) or now["tc"] < case["src"]["tc"] or now["tj"] < case["src"]["tj"]:
                return {"ok": False, "msg": "model edge %s from %s: after a backend failure the wrapped runner's counters differ from the completed work / a wrapper counter decreased" % (case["label"], case["src"]),
                        "expected": str(case["dst"]), "observed": str(now), "sig": "tlc:edge-failure"}
            return {"ok": True, "nt": case["dst"] != case["src"], "ops": len(case["path"]) + 1, "key": jdump(case["dst"]), "out": case["label"]}
        if ("Bad" in case["label"]) != (exc is not None):
            return {"ok": False, "msg": "model action %s: implementation %s" % (case["label"], "raised " + repr(exc) if exc else "accepted the request"), "sig": "tlc:validity"}
        if counters() != case["dst"]:
            return {"ok": False, "msg": "model edge %s from %s: counters of the real classes differ from the model's target state" % (case["label"], case["src"]), "expected": str(case["dst"]),
                    "observed": str(counters()), "sig": "tlc:edge"}
        # cross-check of the two reference models: the Python model must predict the same deltas as the TLA+ model
        ev = LABEL_EVENT[case["label"]]
        valid, _ = R.request_valid("track:mock", ev, CIRCUITS)
        if valid:
            dc, dj = R.inner_counter_delta("track:mock", ev, CIRCUITS)
            td = R.tracker_counter_delta(ev)
            if (case["dst"]["ic"] - case["src"]["ic"], case["dst"]["ij"] - case["src"]["ij"]) != (dc, dj) or (td is not None and case["dst"]["tc"] - case["src"]["tc"] != td[0]):
                return {"ok": False, "inconclusive": "TLA+ model and Python reference model disagree on %s" % case["label"]}
        elif case["dst"] != case["src"]:
            return {"ok": False, "inconclusive": "TLA+ model changes counters on an invalid request %s" % case["label"]}
        return {"ok": True, "nt": case["dst"] != case["src"], "ops": len(case["path"]) + 1, "key": jdump(case["dst"]), "out": case["label"]}
    finally:
        shutil.rmtree(workdir, ignore_errors=True)


def partial_case(case):
    """{'kind': flaky | track:flaky | symbolic | basesim | track:symbolic, 'hist': [events]}: requests that pass validation but FAIL IN THE BACKEND part-way (a runner whose
    backend raises for one circuit; a simulator handed an unbound circuit inside a batch). The failure must surface as an exception; the counters never decrease - not even
    relative to a reading taken DURING the call - and grow by exactly the work that was completed (the runner's own completion log is the witness)"""
    from orquestra.quantum.api.circuit_runner import BaseCircuitRunner
    from orquestra.quantum.api.wavefunction_simulator import BaseWavefunctionSimulator
    from orquestra.quantum.measurements import Measurements
    from orquestra.quantum.runners.symbolic_simulator import SymbolicSimulator
    from orquestra.quantum.runners.trackers import MeasurementTrackingBackend
    kind = case["kind"]
    # circuit 8 (this section only): five segments for the base-class simulator - native, non-native, native (its backend refuses it), non-native, native
    SEG = {"ops": [{"gate": G("T"), "q": [0]}, {"mp": [0.1, 0.2]}, {"gate": G("S"), "q": [0]}, {"mp": [0.3, -0.2]}, {"gate": G("T"), "q": [0]}], "n": 1}
    circuits = [mk_circuit(c) for c in CIRCUITS] + [mk_circuit(SEG)]
    ids = {id(c): i for i, c in enumerate(circuits)}
    POISON = 5
    done, readings = [], []

    class Flaky(BaseCircuitRunner):
        def _run_and_measure(self, circuit, n_samples):
            readings.append((self.n_circuits_executed, self.n_jobs_executed))
            if ids.get(id(circuit)) == POISON:
                raise RuntimeError("backend refused circuit %d" % POISON)
            done.append(ids.get(id(circuit), -1))
            return Measurements([tuple(0 for _ in range(circuit.n_qubits))] * n_samples)

    class Sym(SymbolicSimulator):
        def _get_wavefunction_from_native_circuit(self, circuit, initial_state):
            readings.append((self.n_circuits_executed, self.n_jobs_executed))
            r = super()._get_wavefunction_from_native_circuit(circuit, initial_state)
            done.append("native")
            return r

    class BaseSim(BaseWavefunctionSimulator):
        def _get_wavefunction_from_native_circuit(self, circuit, initial_state):
            readings.append((self.n_circuits_executed, self.n_jobs_executed))
            if any(getattr(o.gate, "name", "") == "S" for o in circuit.operations):
                raise RuntimeError("native backend refused a segment")
            s_ = np.asarray(initial_state, dtype=complex)
            for o in circuit.operations:
                s_ = L.embed(np.array(o.gate.matrix, dtype=complex), tuple(o.qubit_indices), circuit.n_qubits) @ s_
            done.append("native")
            return s_

    workdir = tempfile.mkdtemp(prefix="c14p.", dir=os.environ.get("VERIF_SCRATCH", "/dev/shm" if os.path.isdir("/dev/shm") else "/var/tmp"))
    try:
        ik = kind.split(":")[-1]
        segfail = ik == "segfail"
        inner = {"flaky": Flaky, "symbolic": lambda: Sym(seed=3), "basesim": lambda: BaseSim(seed=3), "segfail": lambda: BaseSim(seed=3)}[ik]()
        runner = MeasurementTrackingBackend(inner, os.path.join(workdir, "raw.json"), record_bitstrings=False) if kind.startswith("track") else inner
        bad_ci = POISON if ik == "flaky" else 8 if segfail else 4        # circuit 4 is unbound: a simulator cannot run it; circuit 8 fails in its third segment
        failed_any = False
        for step_no, ev in enumerate(case["hist"]):
            cis = [ev[1]] if ev[0] == "run" else list(ev[1])
            fails = bad_ci in cis
            before = (runner.n_circuits_executed, runner.n_jobs_executed, inner.n_circuits_executed, inner.n_jobs_executed, len(done))
            del readings[:]
            exc = None
            with seams.owned_rng(seams.Script()):
                try:
                    if ev[0] == "run":
                        runner.run_and_measure(circuits[ev[1]], ev[2])
                    else:
                        runner.run_batch_and_measure([circuits[i] for i in ev[1]], ev[2])
                except seams.UnownedRandomness:
                    raise
                except Exception as e:  # noqa: BLE001
                    exc = e
            after = (runner.n_circuits_executed, runner.n_jobs_executed, inner.n_circuits_executed, inner.n_jobs_executed, len(done))
            where = "call %d %s on %s" % (step_no + 1, ev, kind)
            if fails and exc is None:
                return {"ok": False, "msg": where + ": the backend failed for circuit %d but the call returned normally" % bad_ci, "sig": "partial:swallowed"}
            if not fails and exc is not None:
                return {"ok": False, "msg": where + ": valid request raised %s: %s" % (type(exc).__name__, exc), "sig": "partial:raised"}
            if any(a < b for a, b in zip(after[:4], before[:4])):
                return {"ok": False, "msg": where + ": a counter decreased", "expected": str(before[:4]), "observed": str(after[:4]), "sig": "partial:decreased"}
            if readings and (max(r[0] for r in readings) > after[2] or max(r[1] for r in readings) > after[3]):
                return {"ok": False, "msg": where + ": a counter reading taken during the call (%s) is higher than the counters after it %s" % (max(readings), after[2:4]), "sig": "partial:went-back"}
            completed = after[4] - before[4]
            if segfail:
                # per circuit before the failing one: 1 native segment = 1 circuit and 1 job (circuits 1, 2 have a single segment); in the failing circuit one native and one non-native
                # segment complete, the third segment starts and fails: whether the failing segment itself is counted is left open, the two segments BEHIND it never started
                n_fail = sum(1 for ci_ in cis if ci_ == 8)
                first_fail = cis.index(8) if 8 in cis else len(cis)
                full = first_fail                       # single-segment circuits completed before the failing circuit
                lo_c, hi_c = full + (1 if fails else 0), full + (2 if fails else 0)
                lo_j, hi_j = full + (2 if fails else 0), full + (3 if fails else 0)
                dc_, dj_ = after[2] - before[2], after[3] - before[3]
                if not (lo_c <= dc_ <= hi_c and lo_j <= dj_ <= hi_j):
                    return {"ok": False, "msg": where + ": a circuit whose third of five segments fails: counters grew by (circuits %d, jobs %d); segments that never started must not be counted (allowed: circuits %d..%d, jobs %d..%d)" % (
                        dc_, dj_, lo_c, hi_c, lo_j, hi_j), "sig": "partial:segments-not-started", "ops": step_no}
                continue
            if after[2] - before[2] != completed or after[3] - before[3] != completed:
                return {"ok": False, "msg": where + ": %d executions were completed%s, the runner's counters grew by %s" % (completed, " before the backend failed" if fails else "",
                        (after[2] - before[2], after[3] - before[3])), "expected": str((completed, completed)), "observed": str((after[2] - before[2], after[3] - before[3])), "sig": "partial:delta"}
            failed_any = failed_any or fails
        return {"ok": True, "nt": failed_any, "ops": len(case["hist"]), "key": jdump([kind, after[:4]]) if case["hist"] else kind, "out": kind}
    finally:
        shutil.rmtree(workdir, ignore_errors=True)


def rename_case(case):
    """{'kind': tracker kind, 'hist': [events, 'rename']}: the tracker's public attribute raw_data_file_name is re-assigned between calls (a new file per stage of an experiment):
    after every later call the file that is NAMED NOW holds a record matching what that call returned"""
    kind = case["kind"]
    circuits = [mk_circuit(c) for c in CIRCUITS]
    workdir = tempfile.mkdtemp(prefix="c14r.", dir=os.environ.get("VERIF_SCRATCH", "/dev/shm" if os.path.isdir("/dev/shm") else "/var/tmp"))
    try:
        runner, inner, log, proxy = make_runner(kind, circuits, workdir)
        n_ren = 0
        for step_no, ev in enumerate(case["hist"]):
            if ev == "rename":
                n_ren += 1
                runner.raw_data_file_name = os.path.join(workdir, "stage%d.json" % n_ren)
                continue
            with seams.owned_rng(seams.Script()):
                res = runner.run_and_measure(circuits[ev[1]], ev[2]) if ev[0] == "run" else runner.run_batch_and_measure([circuits[i] for i in ev[1]], ev[2])
            results = [res] if ev[0] == "run" else list(res)
            path = runner.raw_data_file_name
            try:
                data = json.loads(open(path).read())["raw-data"]
            except Exception as e:  # noqa: BLE001
                return {"ok": False, "msg": "call %d %s: the file the tracker is named to write (%s) does not exist / does not parse: %s" % (step_no + 1, ev, os.path.basename(path), type(e).__name__), "sig": "rename:file"}
            tail = data[-len(results):]
            if len(tail) != len(results) or any(rec["counts"] != m.get_counts() or rec["number_of_shots"] != len(m.bitstrings) for rec, m in zip(tail, results)):
                return {"ok": False, "msg": "call %d %s: the last records of %s do not match what the call returned" % (step_no + 1, ev, os.path.basename(path)), "sig": "rename:record"}
        return {"ok": True, "nt": n_ren > 0, "ops": len(case["hist"]), "out": kind}
    finally:
        shutil.rmtree(workdir, ignore_errors=True)


FUNCS = {"renamed_file": rename_case, "partial_failures": partial_case, "big_batches": history_case, "histories": history_case, "tlc_edges": tlc_edge_case}


def menu(core=False):
    ev = []
    ns_run = [1, 3, 0, -1]
    for ci in range(len(CIRCUITS)):
        for n in (ns_run if not core else [2, 0]):
            ev.append(["run", ci, n])
    batches = [[], [1], [1, 2], [2, 0, 5], [3, 6, 1], [7, 1]] if not core else [[1, 2], [2, 0, 5]]
    for b in batches:
        opts = [3, 0, -2, [2 + i for i in range(len(b))], [2] * (len(b) + 1)]
        if b:
            opts += [[2] * (len(b) - 1), [3] * (len(b) - 1) + [0]]
            if len(b) >= 2:
                opts.append([3, 0] + [3] * (len(b) - 2))
        for ns in opts:
            if not b and isinstance(ns, int) and ns <= 0:
                continue  # empty batch with an invalid scalar: the statement is silent (nothing to reject per circuit)
            if core and ns in (-2,):
                continue
            ev.append(["batch", b, ns])
    for ci in ((1, 2, 3, 7) if not core else (2,)):  # the unbound circuit is kept out: what an exact distribution of it should do is not stated
        for n in (None, 2, 0):
            ev.append(["dist", ci, n])
    return ev


def run(run):
    thorough = run.tier == "thorough"
    full, core = menu(), menu(core=True)
    cases = []

    def uses(e, ci):
        return (e[0] == "batch" and ci in e[1]) or (e[0] != "batch" and e[1] == ci)
    full_all, core_all = full, core
    for kind in KINDS:
        # the tracker serialises every circuit it records; the JSON format only covers gate circuits, so the MultiPhaseOperation circuit (3)
        # is kept out of tracker histories (to_dict raises AttributeError for it - noted in DESIGN.md, outside the statement)
        full = [e for e in full_all if not (kind.startswith("track") and (uses(e, 3) or uses(e, 7)))]
        core = [e for e in core_all if not (kind.startswith("track") and (uses(e, 3) or uses(e, 7)))]
        cases.append({"kind": kind, "hist": []})
        for e in full:
            cases.append({"kind": kind, "hist": [e]})
        for a in full:
            for b in full:
                cases.append({"kind": kind, "hist": [a, b]})
        if thorough:
            deep = full if kind in ("mock", "track:mock") else core     # full menu at depth 3 for the base runner and its tracker
            for a in deep:
                for b in deep:
                    for c in deep:
                        cases.append({"kind": kind, "hist": [a, b, c]})
    # batches of 63..130 circuits (a buffer, a page or a chunk size of 64 / 100 / 128 would be crossed), alone and next to a single run
    big = []
    for kind in KINDS:
        pool_ = [1, 2, 5, 0, 6] if kind.startswith("track") else [1, 2, 5, 0, 6, 3]
        for Lb in ((63, 64, 65, 100, 101, 128, 130, 257) if thorough else (63, 64, 65, 101, 130)):
            b = [pool_[i % len(pool_)] for i in range(Lb)]
            big += [{"kind": kind, "hist": [["batch", b, 2]]}, {"kind": kind, "hist": [["batch", b, [1 + i % 3 for i in range(Lb)]], ["run", 1, 3]]},
                    {"kind": kind, "hist": [["run", 2, 1], ["batch", b, 1], ["batch", b[:3], 2]]}, {"kind": kind, "hist": [["batch", b, [2] * (Lb - 1) + [0]], ["batch", b, 1]]}]
    secs = [Section("big_batches", big, history_case, horizon=300, chunk=4, desc="batches of 63-130 (thorough 257) circuits on every runner kind, alone, before / after single runs, and rejected for one bad entry")]
    secs += [Section("histories", cases, history_case, horizon=120, chunk=200,
                    desc="all call histories (full menu: %d events, core: %d) on %d runner kinds" % (len(full_all), len(core_all), len(KINDS)))]
    pev = {k_: [["run", 1, 2], ["run", b_, 2], ["batch", [1, 2], 2], ["batch", [b_], 2], ["batch", [1, b_], 2], ["batch", [b_, 1], [2, 3]], ["batch", [1, 2, b_, 1], 2], ["batch", [2, 1, 2, b_], [1, 2, 3, 4]],
                ["batch", [1, b_, b_, 2], 1]] for k_, b_ in (("flaky", 5), ("track:flaky", 5), ("symbolic", 4), ("basesim", 4), ("track:symbolic", 4), ("segfail", 8))}
    pc = [{"kind": k_, "hist": list(h)} for k_, evs in pev.items() for d_ in ((1, 2, 3) if thorough else (1, 2)) for h in itertools.product(evs, repeat=d_)]
    secs.append(Section("partial_failures", pc, partial_case, horizon=120, desc="requests that fail in the backend part-way (a runner whose backend raises for one circuit, an unbound circuit inside a simulator batch): "
                        "the failure surfaces, counters never go back - also relative to readings taken during the call - and grow by the completed work; all histories of <= 2 (thorough 3) of 9 events on 5 runner kinds"))
    rev = [["run", 1, 2], ["run", 2, 3], ["batch", [1, 2], 2], "rename"]
    rcases = [{"kind": k_, "hist": list(h)} for k_ in ("track:mock", "track:mock:bits", "track:symbolic") for d_ in (2, 3, 4) for h in itertools.product(rev, repeat=d_) if "rename" in h and h[-1] != "rename"]
    secs.append(Section("renamed_file", rcases, rename_case, horizon=120, desc="the tracker's raw_data_file_name re-assigned between calls: every history of 2-4 events over {run, run, batch, rename}; the file named now holds the matching records"))
    from mc import tlc
    ok, out, dot, (gen, distinct) = tlc.run_tlc()
    if not ok:
        run.inconclusive.append(("tlc_edges", 0, {}, "TLC did not complete without error: " + out[-400:]))
    else:
        nodes, edges, init = tlc.parse_dot(dot)
        tr, reach = tlc.traces(nodes, edges, init)
        run.notes.append("TLC: %d states generated, %d distinct, %d edges dumped, %d states reachable in the dump; every edge replayed against MeasurementTrackingBackend(BaseCircuitRunner mock)" % (
            gen, distinct, len(edges), reach))
        if reach != distinct or len(tr) != len(edges):
            run.inconclusive.append(("tlc_edges", 0, {}, "dot dump incomplete: %d/%d states, %d/%d edges" % (reach, distinct, len(tr), len(edges))))
        secs.append(Section("tlc_edges", tr, tlc_edge_case, horizon=120, desc="every edge of the TLC state graph of models/RunnerCounters.tla replayed against the implementation"))
    run.run_sections(secs)
