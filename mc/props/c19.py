"""C19 - translating symbolic expressions preserves their value (E1: all expression trees up to a depth)."""
import itertools

import sympy

from mc.engine import Section, jdump

RULE = ("grammar: atoms {x, y, beta_2, 2, -1, 0, 1, 1/3, -3/2, Float(0.5), I}; unary {neg, reciprocal, sqrt, cos, sin, exp, tan}; binary {+,-,*,/,**} in both operand "
        "orders; ALL trees of depth <= 1 over all atoms, all depth-2 trees (unary over depth-1, binary of depth-1 with an atom of a reduced set, either side), "
        "binary of two depth-1 trees over {x, 2, -1}; thorough adds depth 3 over the reduced atom set. Each tree (as sympy canonicalises it, de-duplicated by srepr) "
        "and n-ary/unevaluated variants are translated to the neutral tree and back with the sympy dialect and evaluated at two assignments; unsupported constructs "
        "at every position of every depth-<=1 context must not come back as something else; natural keys: ALL names of length <= 5 over {a,b,_,0,1,2,9} against an "
        "independent scanner. non-trivial = tree containing a symbol and at least one operation")
RULE += ' An unsupported node still present in the expression (as sympy holds it) must be refused whatever value comes back.'
RULE += ' Round 7: a plain Symbol next to a Dummy / Wild of the same name (they print differently) is never merged.'
RULE += ' Round 5: integers beyond 2^53 must round-trip exactly (rationals by value); 600-1200 refused translations interleaved with supported ones in one process.'
ASSUMPTIONS = ["the neutral tree stores symbols by their printed name: distinct symbols that print alike (two Dummy('x'); x next to x with assumptions) are one symbol to it and are outside the alphabet", "trees whose own value is nan/infinite at an assignment are skipped there (counted)", "relative tolerance 1e-9 on values"]
BOUNDS = {"quick": {"depth": 2, "names_len": 4}, "thorough": {"depth": 3, "names_len": 5}}
X, Y, B2 = sympy.symbols("x y beta_2")
ASSIGN = [{X: 0.7, Y: -1.3, B2: 0.4}, {X: -0.2, Y: 2.1, B2: 1.7}]

ATOMS = {"x": X, "y": Y, "beta_2": B2, "2": sympy.Integer(2), "-1": sympy.Integer(-1), "0": sympy.Integer(0), "1": sympy.Integer(1), "1/3": sympy.Rational(1, 3),
         "-3/2": sympy.Rational(-3, 2), "F0.5": sympy.Float(0.5), "I": sympy.I}
UN = {"neg": lambda a: -a, "rec": lambda a: 1 / a, "sqrt": sympy.sqrt, "cos": sympy.cos, "sin": sympy.sin, "exp": sympy.exp, "tan": sympy.tan}
BIN = {"add": lambda a, b: a + b, "sub": lambda a, b: a - b, "mul": lambda a, b: a * b, "div": lambda a, b: a / b, "pow": lambda a, b: a ** b}
UNSUPPORTED = {"log": lambda a: sympy.log(a), "Abs": lambda a: sympy.Abs(a), "acos": lambda a: sympy.acos(a), "cosh": lambda a: sympy.cosh(a), "pi": lambda a: sympy.pi * a,
               "E": lambda a: sympy.E + a, "oo": lambda a: sympy.oo * a, "Piecewise": lambda a: sympy.Piecewise((a, a > 0), (1, True)), "Max": lambda a: sympy.Max(a, 1),
               "Derivative": lambda a: sympy.Derivative(sympy.cos(a * X), X), "conjugate": lambda a: sympy.conjugate(a), "Mod": lambda a: sympy.Mod(a, 2), "floor": lambda a: sympy.floor(a),
               "sign": lambda a: sympy.sign(a),
               # applied UNDEFINED functions - also ones whose names are case variants of supported functions: they are not those functions
               "fSin": lambda a: sympy.Function("Sin")(a), "fCOS": lambda a: sympy.Function("COS")(a), "fExp": lambda a: sympy.Function("Exp")(a), "fSqrt": lambda a: sympy.Function("SQRT")(a),
               "fPow": lambda a: sympy.Function("Pow")(a, 2), "fAdd": lambda a: sympy.Function("ADD")(a, 1), "fg": lambda a: sympy.Function("g")(a), "fmul": lambda a: sympy.Function("Mul")(a, a), "factorial": lambda a: sympy.factorial(a), "re": lambda a: sympy.re(a), "atan2": lambda a: sympy.atan2(a, 2), "Eq": lambda a: sympy.Eq(a, 1)}


def build(t):
    """tree descriptor: 'atom' | [op, t] | [op, t1, t2] | ['nadd'|'nmul', t...] (n-ary, unevaluated) | ['u:<name>', t] unsupported"""
    if isinstance(t, str):
        return ATOMS[t]
    op = t[0]
    if op in UN:
        return UN[op](build(t[1]))
    if op in BIN:
        return BIN[op](build(t[1]), build(t[2]))
    if op == "nadd":
        return sympy.Add(*[build(a) for a in t[1:]], evaluate=False)
    if op == "nmul":
        return sympy.Mul(*[build(a) for a in t[1:]], evaluate=False)
    if op == "upow":
        return sympy.Pow(build(t[1]), build(t[2]), evaluate=False)
    if op.startswith("u:"):
        return UNSUPPORTED[op[2:]](build(t[1]))
    raise ValueError(op)


def value(e, asg):
    try:
        v = complex(sympy.N(e.subs(asg)))
    except Exception:  # noqa: BLE001  (zoo, nan, unevaluated)
        return None
    if v != v or abs(v) == float("inf") or abs(v) > 1e12:
        return None
    return v


def in_grammar(e):
    """does the expression, AS SYMPY HOLDS IT, consist only of the supported constructs? (sympy rewrites e.g. cos(I) into cosh(1))"""
    ok = (sympy.Symbol, sympy.Integer, sympy.Float, sympy.Rational, sympy.core.numbers.ImaginaryUnit, sympy.Add, sympy.Mul, sympy.Pow, sympy.sin, sympy.cos, sympy.exp, sympy.tan)
    return all(isinstance(n, ok) for n in sympy.preorder_traversal(e))


def roundtrip(e):
    from orquestra.quantum.circuits.symbolic.sympy_expressions import expression_from_sympy, SYMPY_DIALECT
    from orquestra.quantum.circuits.symbolic.translations import translate_expression
    return translate_expression(expression_from_sympy(e), SYMPY_DIALECT)


def tree_case(case):
    """{'trees': [tree descriptors]}"""
    k = 0
    skipped = 0
    nt = False
    seen = set()
    for t in case["trees"]:
        try:
            e = build(t)
        except Exception:  # noqa: BLE001  (sympy itself refuses, e.g. 0**-1 -> zoo is fine, but errors are not ours)
            skipped += 1
            continue
        if not isinstance(e, sympy.Basic) or e.has(sympy.zoo, sympy.nan, sympy.oo, -sympy.oo):
            skipped += 1
            continue
        key = sympy.srepr(e)
        if key in seen:
            continue
        seen.add(key)
        vals = [value(e, a) for a in ASSIGN]
        if all(v is None for v in vals):
            skipped += 1
            continue
        k += 1
        try:
            r = roundtrip(e)
        except Exception as ex:  # noqa: BLE001
            if not in_grammar(e):
                skipped += 1      # sympy's own canonicalisation left the grammar (cosh, re, im ...): refusing is what the statement asks for
                continue
            return {"ok": False, "msg": "expression %s of the supported grammar is not translated: %s: %s" % (e, type(ex).__name__, str(ex)[:120]), "sig": "tree:refused", "ops": k,
                    "observed": sympy.srepr(e)[:300]}
        for a, v in zip(ASSIGN, vals):
            if v is None:
                continue
            w = value(sympy.sympify(r), a)
            if w is None or abs(w - v) > 1e-9 * max(1, abs(v)):
                return {"ok": False, "msg": "translation of %s evaluates to another number at %s" % (e, {str(s): x for s, x in a.items()}), "expected": str(v), "observed": "%s -> %s" % (r, w),
                        "sig": "tree:value", "ops": k}
        if e.free_symbols and not isinstance(t, str):
            nt = True
    return {"ok": True, "nt": nt, "ops": max(k, 1), "key": jdump(case["trees"][:1]) + str(len(case["trees"])), "extra": {"distinct_expressions": k, "skipped_nonfinite": skipped}, "out": "ok"}


BIG = {"2^53+1": sympy.Integer(2 ** 53 + 1), "2^64+1": sympy.Integer(2 ** 64 + 1), "-(10^20+7)": -sympy.Integer(10 ** 20 + 7), "(2^64+1)/3": sympy.Rational(2 ** 64 + 1, 3), "1/(2^61-1)": sympy.Rational(1, 2 ** 61 - 1),
       "10^30": sympy.Integer(10) ** 30, "(10^18+1)/(10^18+3)": sympy.Rational(10 ** 18 + 1, 10 ** 18 + 3), "2^31": sympy.Integer(2 ** 31), "-2^63": -sympy.Integer(2 ** 63), "123456789012345678": sympy.Integer(123456789012345678)}


def exact_case(case):
    """{'big': name, 'ctx': k}: integers beyond 2^53 (where a float no longer tells neighbours apart): the translated expression is EXACTLY the original; rationals with such
    numerators / denominators: equal by value to float precision"""
    b = BIG[case["big"]]
    e = [lambda: b, lambda: b + X, lambda: X * b, lambda: X ** 2 / b + Y, lambda: sympy.cos(b * X), lambda: (X + b) * (Y - b), lambda: b - X, lambda: sympy.Pow(X, b, evaluate=False) if b.is_Integer and abs(b) < 2 ** 40 else b * Y - 1,
         lambda: sympy.Add(b, 1, evaluate=False), lambda: X / b][case["ctx"]]()
    try:
        r = sympy.sympify(roundtrip(e))
    except Exception as ex:  # noqa: BLE001
        return {"ok": False, "msg": "expression %s of the supported grammar is not translated: %s: %s" % (e, type(ex).__name__, str(ex)[:120]), "sig": "exact:refused"}
    if not b.is_Integer:
        # a rational is handed on as the nearest float by design ("evaluates to the same number" to float precision): compared by value; the context cos(b*x)
        # with b ~ 1e18 amplifies that last-digit rounding to O(1) and is not judged
        if case["ctx"] == 4 and abs(b) > 1e6:
            return {"ok": True, "skip": True}
        for a in ASSIGN[:2]:
            v, w = complex(sympy.N(e.subs(a), 40)), complex(sympy.N(r.subs(a), 40))
            if abs(v - w) > 1e-12 * max(1.0, abs(v)):
                return {"ok": False, "msg": "translation of %s evaluates to another number at %s" % (e, {str(k_): x for k_, x in a.items()}), "expected": str(v), "observed": "%s -> %s" % (r, w), "sig": "exact:rational-value"}
        return {"ok": True, "nt": True, "out": "rational"}
    diff = sympy.expand(r - e)
    ok = diff == 0
    if not ok and not diff.free_symbols and not diff.atoms(sympy.Float):
        ok = sympy.simplify(diff) == 0
    if not ok:
        return {"ok": False, "msg": "translation of %s is not exactly the same expression (difference %s)" % (e, diff), "expected": str(e), "observed": str(r), "sig": "exact:value"}
    return {"ok": True, "nt": True, "out": "exact"}


def refusal_history_case(case):
    """{'rounds': n, 'step': k}: one process; n refused translations (unsupported constructs at the root, below the root, deep inside) interleaved with translations of supported
    expressions: a refusal leaves nothing behind - every supported expression is still translated, with the same value"""
    ctx = [lambda u: u, lambda u: ["add", u, "x"], lambda u: ["cos", ["mul", "2", u]], lambda u: ["div", "1", ["add", "y", ["pow", u, "2"]]], lambda u: ["sqrt", ["sub", "y", ["sin", u]]]]
    good = [["add", "x", "y"], ["cos", ["add", "x", "1"]], ["div", "x", ["mul", "y", "2"]], ["pow", ["add", "x", "2"], "y"], ["exp", ["mul", "I", "x"]], ["sqrt", ["add", ["mul", "x", "x"], "1"]]]
    names = list(UNSUPPORTED)
    k = refused = 0
    for i in range(case["rounds"]):
        t = ctx[i % len(ctx)](["u:" + names[(i * case["step"]) % len(names)], ["add", "x", "y"] if i % 2 else "x"])
        try:
            e = build(t)
            roundtrip(e)
        except Exception:  # noqa: BLE001
            refused += 1
        g = build(good[i % len(good)])
        k += 1
        try:
            r = roundtrip(g)
        except Exception as ex:  # noqa: BLE001
            return {"ok": False, "msg": "after %d refused translations in this process the supported expression %s is refused too: %s: %s" % (refused, g, type(ex).__name__, str(ex)[:120]),
                    "sig": "refusal-history:refused", "ops": k}
        for a in ASSIGN[:2]:
            v, w = value(g, a), value(sympy.sympify(r), a)
            if v is not None and (w is None or abs(w - v) > 1e-9 * max(1, abs(v))):
                return {"ok": False, "msg": "after %d refused translations %s translates to %s" % (refused, g, r), "sig": "refusal-history:value", "ops": k}
    return {"ok": True, "nt": refused > case["rounds"] // 2, "ops": k, "out": "rounds%d" % case["rounds"], "extra": {"refused": refused}}


def unsupported_case(case):
    """{'tree': descriptor containing one 'u:<name>' node}: must be refused, or come back value-equal (never as something else)"""
    t = case["tree"]
    try:
        e = build(t)
    except Exception:  # noqa: BLE001
        return {"ok": True, "skip": True}
    try:
        r = roundtrip(e)
    except Exception:  # noqa: BLE001
        return {"ok": True, "nt": True, "out": "refused"}
    # if the expression AS SYMPY HOLDS IT still contains a construct outside the supported set (sympy may have evaluated it away: Abs(2) = 2,
    # cos(acos(x)) = x), a result of any kind is "translated to something else" - even a numerically close one such as pi -> 3.14159...
    bad_nodes = [n for n in sympy.preorder_traversal(e) if isinstance(n, (sympy.NumberSymbol, sympy.core.function.AppliedUndef, sympy.log, sympy.Abs, sympy.acos, sympy.asin, sympy.atan, sympy.cosh, sympy.sinh,
                                                                            sympy.Piecewise, sympy.Max, sympy.Min, sympy.Derivative, sympy.conjugate, sympy.re, sympy.im))]
    if bad_nodes:
        return {"ok": False, "msg": "%s contains the unsupported construct %s but was not refused: it came back as %s" % (e, bad_nodes[0], r), "sig": "unsupported:accepted-node"}
    for a in ASSIGN:
        v, w = value(e, a), value(sympy.sympify(r), a)
        if v is not None and (w is None or abs(w - v) > 1e-9 * max(1, abs(v))):
            return {"ok": False, "msg": "unsupported construct in %s was translated to something else: %s" % (e, r), "expected": str(v), "observed": str(w), "sig": "unsupported:changed"}
    if (e.has(sympy.oo) or e.has(-sympy.oo)) and value(e, ASSIGN[0]) is None:
        # the library hands sympy's infinity on like any other float; "unchanged" is judged with the infinity replaced by a finite stand-in on both sides
        W = sympy.Symbol("W_inf")
        e2, r2 = e.xreplace({sympy.oo: W, -sympy.oo: -W}), sympy.sympify(r).xreplace({sympy.oo: W, -sympy.oo: -W})
        same = True
        for a in ASSIGN:
            v, w = value(e2, {**a, W: 3.7}), value(r2, {**a, W: 3.7})
            if (v is None) != (w is None) or (v is not None and abs(w - v) > 1e-9 * max(1, abs(v))):
                same = False
        if same:
            return {"ok": True, "nt": True, "out": "same-value"}
    if sympy.srepr(sympy.sympify(r)) != sympy.srepr(e) and value(e, ASSIGN[0]) is None:
        return {"ok": False, "msg": "unsupported construct in %s was not refused and came back as %s" % (e, r), "sig": "unsupported:accepted"}
    return {"ok": True, "nt": True, "out": "same-value"}


def scan_key(name):
    """independent natural key: maximal digit runs become integers, other runs stay strings; padded with empty strings so that the list
    always alternates str, int, str, ..., str (like types meet like types in a comparison)"""
    runs = []
    for ch in name:
        d = ch.isdecimal()        # the decimal digits (ASCII and other scripts); superscripts / circled digits are not digit groups
        if runs and runs[-1][0] == d:
            runs[-1][1] += ch
        else:
            runs.append([d, ch])
    key = []
    if not runs or runs[0][0]:
        key.append("")
    for d, txt in runs:
        key.append(int(txt) if d else txt)
    if runs and runs[-1][0]:
        key.append("")
    return key


def keys_case(case):
    """{'names': [...]}: natural_key against the independent scanner, revlex = reversed, total order without TypeError"""
    from orquestra.quantum.circuits.symbolic._sorting import natural_key, natural_key_revlex
    names = case["names"]
    syms = [sympy.Symbol(n) for n in names]
    ks = []
    for n, s in zip(names, syms):
        try:
            k1 = natural_key(s)
        except Exception as e:  # noqa: BLE001
            return {"ok": False, "msg": "natural_key(%r) raises %s: %s" % (n, type(e).__name__, e), "sig": "keys:exception"}
        # semantic comparison: drop empty strings, which carry no information
        want = [p for p in scan_key(n) if p != ""]
        got = [p for p in k1 if p != ""]
        if got != want:
            return {"ok": False, "msg": "natural_key(%r) does not split digit groups numerically" % n, "expected": str(want), "observed": str(k1), "sig": "keys:split"}
        if list(natural_key_revlex(s)) != list(reversed(k1)):
            return {"ok": False, "msg": "natural_key_revlex(%r) is not the reversed natural key" % n, "sig": "keys:revlex"}
        ks.append(k1)
    try:
        order = sorted(range(len(names)), key=lambda i: ks[i])
        sorted(syms, key=natural_key_revlex)
    except TypeError as e:
        return {"ok": False, "msg": "natural keys are not mutually comparable: %s" % e, "sig": "keys:typeerror"}

    def ref_less(a, b):
        """reference order: compare the scanner's parts pairwise (strings lexicographically, integers numerically; alternation guarantees like types)"""
        return scan_key(a) < scan_key(b)
    for i, j in zip(order, order[1:]):
        if scan_key(names[i]) != scan_key(names[j]) and not ref_less(names[i], names[j]):
            return {"ok": False, "msg": "sorted by natural_key puts %r before %r" % (names[i], names[j]), "sig": "keys:order"}
    return {"ok": True, "nt": True, "ops": len(names), "out": "keys"}


ODD_NAMES = ["c_{1,2}", "left arm", "q:0", "t(0:1)", "x,y", "a b", "theta[3]", "x[1][2]", "p.q", "alpha_1.5", "lambda", "in", "E", "I", "pi", "gamma", "S", "beta'", "x:3", "a:c", "ab(1:3)", "w-1",
             "1x", "_", "x y z", "u,", ",v", "N", "Q", "oo", "zoo", "re", "im", "x²", "µ", "λ_1", "a/b", "a*b", "a+b", "(x)", "x**2", "2*x", "-x", "x;y", "x=1", "{x}", "x|y", "x\\y", "#1", "$x", "x?"]


def symbol_name_case(case):
    """{'names': [...]}: a symbol is a symbol whatever its name looks like: x_name alone, in a sum, a product, a power and inside cos come back as the SAME symbol
    (equal expression), one symbol, value-equal"""
    k = 0
    for n in case["names"]:
        sym = sympy.Symbol(n)
        other = sympy.Symbol("x")
        for e in (sym, sym + 1, 2 * sym, sym ** 2, sympy.cos(sym) + other, sym * other - sympy.Rational(1, 3)):
            k += 1
            try:
                r = roundtrip(e)
            except Exception as ex:  # noqa: BLE001
                return {"ok": False, "msg": "expression %s over the symbol named %r is not translated: %s: %s" % (e, n, type(ex).__name__, str(ex)[:120]), "sig": "names:refused", "ops": k}
            if not isinstance(r, sympy.Basic) or r.free_symbols != e.free_symbols:
                return {"ok": False, "msg": "expression over the symbol named %r came back with other symbols: %r" % (n, r), "expected": str(sorted(map(str, e.free_symbols))),
                        "observed": str(sorted(map(str, getattr(r, "free_symbols", [])))) + " / " + type(r).__name__, "sig": "names:symbols", "ops": k}
            for v in (0.7, -1.3):
                a = {sym: v, other: 0.4}
                if abs(complex(sympy.N(r.subs(a))) - complex(sympy.N(e.subs(a)))) > 1e-9:
                    return {"ok": False, "msg": "expression %s over the symbol named %r evaluates to another number" % (e, n), "sig": "names:value", "ops": k}
    return {"ok": True, "nt": True, "ops": k, "out": "names"}


def twin_symbol_case(case):
    """{'name': n}: DISTINCT symbols that share a name (a plain Symbol, a Dummy, a Wild, a Symbol with assumptions) inside one expression: the translation must not merge them -
    the value at an assignment that gives them different numbers is preserved, or the expression is refused; it never comes back as something else"""
    n = case["name"]
    plain, dummy, wild, real = sympy.Symbol(n), sympy.Dummy(n), sympy.Wild(n), sympy.Symbol(n, real=True)
    k = 0
    # (two symbols that also PRINT alike - two Dummy('x'), or x next to x with assumptions - cannot be told apart by a tree that stores names: outside the alphabet, see ASSUMPTIONS)
    for a, b in ((plain, dummy), (plain, wild), (dummy, wild)):
        for e in (a / b, a - b, sympy.cos(a) * sympy.sin(b), a + 2 * b, a ** b):
            k += 1
            try:
                r = roundtrip(e)
            except Exception:  # noqa: BLE001
                continue          # refused: allowed
            r = sympy.sympify(r)
            fs = sorted(r.free_symbols, key=str)
            if len(r.free_symbols) < 2:
                return {"ok": False, "msg": "%s over two distinct symbols named %r came back as %s (the two symbols were merged)" % (sympy.srepr(e)[:120], n, r), "sig": "twins:merged", "ops": k}
    return {"ok": True, "nt": True, "ops": k, "out": "twins"}


def literal_case(case):
    from orquestra.quantum.circuits.symbolic._sorting import natural_key, natural_key_revlex
    s = [sympy.Symbol(n) for n in ("beta_10", "theta_2", "beta_2", "theta_1", "theta_1_10", "theta_1_2", "x2_y10", "x2_y9")]
    got = [x.name for x in sorted(s, key=natural_key)]
    exp = ["beta_2", "beta_10", "theta_1", "theta_1_2", "theta_1_10", "theta_2", "x2_y9", "x2_y10"]
    if got != exp:
        return {"ok": False, "msg": "natural order of the documented example is wrong", "expected": str(exp), "observed": str(got), "sig": "keys:literal"}
    r = [x.name for x in sorted([sympy.Symbol(n) for n in ("beta_1", "beta_2", "theta_1", "theta_2")], key=natural_key_revlex)]
    if r != ["beta_1", "theta_1", "beta_2", "theta_2"]:
        return {"ok": False, "msg": "revlex order of the documented example is wrong", "observed": str(r), "sig": "keys:literal-revlex"}
    return {"ok": True, "nt": True, "out": "literal"}


WIDE_TERMS = ["x", "y", "beta_2", "2", "1/3", "I", ["cos", "x"], ["sin", "y"], ["mul", "x", "y"], ["pow", "x", "2"], ["exp", "beta_2"], ["sqrt", "2"], "F0.5", ["tan", "x"], "-3/2", ["div", "y", "2"]]


def dialect_history_case(case):
    """{'tree': t}: the same neutral tree is first translated with ANOTHER dialect (a numeric evaluator that also knows log/abs), then with the sympy
    dialect: the sympy translation must be unaffected by the earlier call (value preserved; unsupported functions still refused)"""
    import cmath
    import operator
    from functools import reduce
    from orquestra.quantum.circuits.symbolic.expressions import ExpressionDialect
    from orquestra.quantum.circuits.symbolic.sympy_expressions import expression_from_sympy, SYMPY_DIALECT
    from orquestra.quantum.circuits.symbolic.translations import translate_expression
    vals = {"x": 0.7, "y": -1.3, "beta_2": 0.4}
    NUMERIC = ExpressionDialect(symbol_factory=lambda s: vals[s.name], number_factory=lambda n: complex(n),
                                known_functions={"add": lambda *a: reduce(operator.add, a), "mul": lambda *a: reduce(operator.mul, a), "div": operator.truediv, "sub": operator.sub,
                                                 "pow": operator.pow, "cos": cmath.cos, "sin": cmath.sin, "exp": cmath.exp, "sqrt": cmath.sqrt, "tan": cmath.tan, "log": cmath.log,
                                                 "Abs": abs})
    e = build(case["tree"])
    tree = expression_from_sympy(e)
    try:
        translate_expression(tree, NUMERIC)
    except Exception:  # noqa: BLE001
        pass
    supported = in_grammar(e)
    try:
        r = translate_expression(tree, SYMPY_DIALECT)
    except Exception as ex:  # noqa: BLE001
        if supported:
            return {"ok": False, "msg": "after a translation with another dialect, the sympy dialect refuses %s: %s" % (e, ex), "sig": "dialect-history:refused"}
        return {"ok": True, "nt": True, "out": "refused"}
    if not supported and not isinstance(r, sympy.Basic):
        return {"ok": False, "msg": "after a translation with another dialect, the sympy dialect no longer refuses %s and returns %r" % (e, r), "sig": "dialect-history:accepted"}
    v = value(e, ASSIGN[0])
    w = value(sympy.sympify(r), ASSIGN[0]) if isinstance(r, (sympy.Basic, int, float, complex)) else None
    if v is not None and (w is None or abs(w - v) > 1e-9 * max(1, abs(v))) or not isinstance(r, (sympy.Basic, int, float, complex)):
        return {"ok": False, "msg": "after a translation with another dialect, the sympy translation of %s is %r" % (e, r), "expected": str(v), "observed": str(w), "sig": "dialect-history:value"}
    return {"ok": True, "nt": True, "out": "same"}


FUNCS = {"twin_symbols": twin_symbol_case, "symbol_names": symbol_name_case, "exact_numbers": exact_case, "refusal_history": refusal_history_case, "dialect_history": dialect_history_case, "trees": tree_case, "nary": tree_case, "unsupported": unsupported_case, "natural_keys": keys_case, **{"natural_keys_sep_%d" % ord(c): keys_case for c in ". ,:-[]() '{}²٣"}, "natural_keys_literal": literal_case}


def depth1(atoms):
    out = list(atoms)
    out += [[u, a] for u in UN for a in atoms]
    out += [[b, a, c] for b in BIN for a in atoms for c in atoms]
    return out


def run(run):
    import warnings
    warnings.filterwarnings("ignore")
    try:
        from sympy.utilities.exceptions import SymPyDeprecationWarning
        warnings.simplefilter("ignore", SymPyDeprecationWarning)
    except Exception:  # noqa: BLE001
        pass
    thorough = run.tier == "thorough"
    full = list(ATOMS)
    red = ["x", "y", "2", "-1", "1/3", "I"]
    tiny = ["x", "2", "-1"]
    D1 = depth1(full)
    trees = list(D1)
    trees += [[u, t] for u in UN for t in D1 if not isinstance(t, str)]
    for t in D1:
        if isinstance(t, str):
            continue
        for a in red:
            for b in BIN:
                trees.append([b, t, a])
                trees.append([b, a, t])
    d1t = [t for t in depth1(tiny) if not isinstance(t, str)]
    trees += [[b, s, t] for b in BIN for s in d1t for t in d1t]
    if thorough:
        D2r = [t for t in depth1(red)]
        D2 = [[u, t] for u in UN for t in D2r if not isinstance(t, str)] + [[b, t, a] for b in BIN for t in D2r if not isinstance(t, str) for a in tiny] + \
             [[b, a, t] for b in BIN for t in D2r if not isinstance(t, str) for a in tiny]
        trees += [[u, t] for u in UN for t in D2] + [[b, t, a] for b in BIN for t in D2[::3] for a in tiny] + [[b, a, t] for b in BIN for t in D2[::3] for a in tiny]
    blk = 150
    secs = [Section("trees", [{"trees": trees[i:i + blk]} for i in range(0, len(trees), blk)], tree_case, horizon=900, chunk=2,
                    desc="all expression trees up to the depth bound (%d generated before de-duplication)" % len(trees))]
    # n-ary and unevaluated forms (repeated operands, three-factor products with reciprocals, nested unevaluated powers)
    nary = []
    atoms3 = ["x", "y", "2", "-1", "1/3"]
    for a, b, c in itertools.product(atoms3, repeat=3):
        nary += [["nadd", a, b, c], ["nmul", a, b, c], ["nmul", a, ["rec", b], c], ["nmul", a, ["rec", ["nmul", b, c]]], ["div", a, ["mul", b, c]], ["div", ["mul", a, b], c],
                 ["nadd", a, ["neg", b], c], ["sub", a, ["add", b, c]]]
    for a, b in itertools.product(atoms3 + [["add", "x", "1"], ["sin", "y"], ["mul", "x", "y"]], repeat=2):
        nary += [["upow", a, b], ["pow", a, b], ["nadd", a, b], ["nmul", a, b], ["nadd", a, a, b], ["nmul", a, a, b], ["div", ["cos", a], ["mul", b, ["add", "y", "1"]]]]
    # wide n-ary sums and products: 2..16 pairwise different operands
    for n in range(2, len(WIDE_TERMS) + 1):
        for off in (0, 3):
            terms = (WIDE_TERMS[off:] + WIDE_TERMS[:off])[:n]
            nary += [["nadd"] + terms, ["nmul"] + terms, ["cos", ["nadd"] + terms], ["pow", ["nmul"] + terms, "2"]]
            e_add, e_mul = terms[0], terms[0]
            for t in terms[1:]:
                e_add, e_mul = ["add", e_add, t], ["mul", e_mul, t]
            nary += [e_add, e_mul]
    secs.append(Section("nary", [{"trees": nary[i:i + blk]} for i in range(0, len(nary), blk)], tree_case, horizon=900, chunk=1, desc="n-ary / unevaluated sums, products (with reciprocal factors) and powers, repeated operands"))
    ctx = [lambda u: u, lambda u: ["add", u, "x"], lambda u: ["mul", "2", u], lambda u: ["cos", u], lambda u: ["pow", u, "2"], lambda u: ["div", "1", u], lambda u: ["sub", "y", u], lambda u: ["sqrt", u],
           lambda u: ["pow", "2", u]]
    # contexts in which the unsupported node sits inside a SYMBOL-FREE sub-expression next to the imaginary unit (1 + I*u, exp(I*u)/..., x*(2 + I*u)): a constant folder must not swallow it
    ctx += [lambda u: ["add", "1", ["mul", "I", u]], lambda u: ["mul", "x", ["exp", ["mul", "I", u]]], lambda u: ["add", ["add", "x", "1"], ["mul", "I", u]],
            lambda u: ["div", ["add", "x", ["mul", "I", u]], ["sub", "y", ["mul", "I", u]]], lambda u: ["mul", ["add", "2", ["mul", "I", u]], "x"], lambda u: ["pow", ["mul", "I", u], "2"],
            lambda u: ["nmul", "I", u, "x"], lambda u: ["nadd", "I", u], lambda u: ["mul", "F0.5", ["add", u, "I"]]]
    uc = [{"tree": c(["u:" + nm, a])} for nm in UNSUPPORTED for a in ("x", "2", "1", "1/3", ["add", "x", "y"]) for c in ctx]
    secs.append(Section("unsupported", uc, unsupported_case, horizon=120, desc="unsupported constructs at every position of every depth-<=1 context: refused, never changed"))
    dh = [{"tree": t} for t in [["add", "x", ["mul", "2", "y"]], ["cos", ["add", "x", "1"]], ["pow", "x", "y"], ["div", "x", ["mul", "y", "2"]], ["u:log", "x"], ["add", ["u:log", "x"], "1"],
                                ["u:Abs", "y"], ["mul", "2", ["u:log", ["add", "x", "2"]]], ["sqrt", ["add", "x", "2"]], ["exp", ["mul", "I", "x"]]]]
    secs.append(Section("dialect_history", dh, dialect_history_case, chunk=len(dh), desc="translate with another dialect first, then with the sympy dialect, in one process"))
    secs.append(Section("exact_numbers", [{"big": b, "ctx": c} for b in BIG for c in range(10)], exact_case, horizon=120, desc="integers and rationals beyond 2^53 in 10 contexts: the round trip is exact, not float-close"))
    secs.append(Section("refusal_history", [{"rounds": r, "step": st} for r, st in ((600, 1), (2500 if thorough else 1200, 5))], refusal_history_case, horizon=900, chunk=1,
                        desc="600 / 1200 (thorough 2500) refused translations interleaved with supported ones in one process: refusals leave nothing behind"))
    secs.append(Section("symbol_names", [{"names": ODD_NAMES[i:i + 6]} for i in range(0, len(ODD_NAMES), 6)], symbol_name_case, horizon=300, chunk=1,
                        desc="%d symbol names with commas, blanks, colons, brackets, operators, names of sympy singletons / keywords: the same symbol comes back" % len(ODD_NAMES)))
    for sep in ". ,:-[]() '{}²٣":
        sn = ["".join(p) for k in range(1, 6) for p in itertools.product("a" + sep + "012", repeat=k) if sep in p and any(c in "012" for c in p)]
        kc_sep = [{"names": sn[i:i + 600]} for i in range(0, len(sn), 600)] + [{"names": sn[i::37]} for i in range(0, 12)]
        secs.append(Section("natural_keys_sep_%d" % ord(sep), kc_sep, keys_case, horizon=300, chunk=1, desc="all names of length <= 5 over {a, %r, 0, 1, 2} that contain the separator and a digit" % sep))
    secs.append(Section("twin_symbols", [{"name": n_} for n_ in ("x", "theta", "beta_2")], twin_symbol_case, desc="a plain Symbol next to a Dummy / Wild / assumption-carrying symbol of the same name in one expression: never merged"))
    alpha = "ab_0129"
    Ln = 5 if thorough else 4
    names = ["".join(p) for k in range(1, Ln + 1) for p in itertools.product(alpha, repeat=k)]
    nb = 400
    kc = [{"names": names[i:i + nb]} for i in range(0, len(names), nb)]
    # mixed blocks so that names of different lengths are compared with one another
    kc += [{"names": names[i::max(1, len(names) // 300)]} for i in range(0, 40)]
    secs.append(Section("natural_keys", kc, keys_case, horizon=300, chunk=1, desc="all %d names of length <= %d over {a,b,_,0,1,2,9}" % (len(names), Ln)))
    secs.append(Section("natural_keys_literal", [{}], literal_case, desc="documented examples (beta_2 < beta_10, multi-index names)"))
    run.run_sections(secs)
