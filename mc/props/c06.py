"""C06 - binding parameters commutes with evaluating the circuit (E1)."""
import itertools
from functools import lru_cache

import numpy as np
from mc.ref.linalg import allclose as _close
import sympy

from mc.engine import Section, jdump
from mc.gates import custom_definition, num
from mc.ref import linalg as L

RULE = ("operations: one- and two-qubit parametric built-ins x a parameter-expression alphabet P (symbols, sums, products, cos, numbers, sympy numbers), U3/MS with "
        "parameter tuples, controlled/dagger wrappers, a custom 2-parameter gate instantiated with EVERY pair from {alpha, beta, c, 0.5} (the definition's own "
        "symbols in both orders and repeated), MultiPhaseOperation, Power/Exponential (must refuse); maps: EVERY function {alpha,beta,c} -> V (V = {unmapped, "
        "0.3, e, 0} quick; + {-1.2, 1/3, 0.0} thorough; no chained maps) plus a family binding the superfluous key d and families of float / sympy zeros; the caller's map "
        "object must be unchanged after every bind; symbols with assumptions and Dummy symbols; per (operation, map): bound parameters, bind-then-evaluate vs evaluate-then-substitute at two "
        "assignments of the remaining symbols, free symbols, every split m = m1 + m2; circuits: all 2-operation circuits of a sub-alphabet. "
        "non-trivial = map binds at least one symbol the operation depends on")
RULE += ' Also: one map object updated in place between binds (every history of 2-3 updates).'
RULE += ' Round 7: custom gates with sqrt / log / acos entries bound outside the real domain; a circuit followed by a copied / unpickled copy of itself.'
RULE += ' Round 6: partial maps as defaultdict / Counter / OrderedDict / ChainMap / dict subclass with __missing__; two distinct symbols that print alike in one operation.'
RULE += ' Round 6: maps whose values mention symbols that are keys too (parameter shift, rescaling, swap, cycle, chain): simultaneous substitution is the reference.'
RULE += ' Round 5: parameters containing bound variables (Sum index, Integral variable); non-real map values for gate operations.'
ASSUMPTIONS = ["for maps whose values mention keys, 'substituting the same values' is read as SIMULTANEOUS substitution (the library's own bare-symbol lookup is simultaneous; a sequential order is not under the caller's control); the several-steps clause is only demanded where the steps do not feed each other", "matrices compared at two numeric assignments of the remaining symbols (entries are analytic in them)"]
BOUNDS = {"quick": {"map_values": "u, 0.3, e, 0 on (alpha,beta,c) + superfluous-key family + float/sympy zeros", "maps": 90}, "thorough": {"map_values": "u, 0.3, e, -1.2, 1/3, 0, 0.0", "maps": 369}}
A, B, Cc, D, E = sympy.symbols("alpha beta c d e")
KEYS = [A, B, Cc, D]
ATOL = 1e-9

PEXPR = {"a": A, "b": B, "a+b": A + B, "2a": 2 * A, "ab": A * B, "cos(a)": sympy.cos(A), "a+0.5": A + 0.5, "0.5": 0.5, "3": 3, "pi": sympy.pi, "F0.25": sympy.Float(0.25), "c": Cc,
         "b-c/2": B - Cc / 2,
         # parameters with BOUND variables (a summation index, an integration variable): they are not symbols the parameter depends on
         "sum": sympy.Sum(A * sympy.Symbol("k"), (sympy.Symbol("k"), 1, 3)), "int+a": sympy.Integral(B * sympy.Symbol("t"), (sympy.Symbol("t"), 0, 1)) + A}
VALS = {"u": None, "0.3": 0.3, "e": E, "-1.2": -1.2, "1/3": sympy.Rational(1, 3), "0": 0, "0.0": 0.0, "S0": sympy.Integer(0),
        "z": 0.3 + 0.2j, "zs": sympy.Float(0.5) - sympy.I / 4}   # non-real values: binding still commutes with evaluation (conjugates inside a dagger are real work)


def mk_operation(d):
    from orquestra.quantum import circuits as C
    k = d["k"]
    ps = tuple(PEXPR[p] for p in d.get("p", []))
    if k == "mp":
        return C.MultiPhaseOperation(ps)
    if k == "custom":
        g = custom_definition("custom1p")(*ps)
    else:
        g = getattr(C, k)(*ps) if ps else getattr(C, k)
    for w in d.get("w", []):
        if w == "dagger":
            g = g.dagger
        elif w == "exp":
            g = g.exp
        elif w[0] == "c":
            g = g.controlled(int(w[1:]))
        elif w[0] == "p":
            g = g.power(float(w[1:]))
    return g(*d["q"])


def mk_map(md):
    return {KEYS[i]: VALS[v] for i, v in enumerate(md) if VALS[v] is not None}


def assignments(syms):
    syms = sorted(syms, key=str)
    return [{s: 0.41 + 0.23 * i + 0.57 * k for i, s in enumerate(syms)} for k in range(2)]


def expected_param(p, m):
    if isinstance(p, sympy.Symbol):
        return m.get(p, p)
    if isinstance(p, sympy.Expr):
        return p.subs(m, simultaneous=True)
    return p


def same_expr(x, y):
    if not isinstance(x, sympy.Basic) and not isinstance(y, sympy.Basic):
        return type(x) is type(y) and x == y
    x, y = sympy.sympify(x), sympy.sympify(y)
    if x.free_symbols != y.free_symbols:
        return False
    for asg in assignments(x.free_symbols):
        if abs(complex(x.subs(asg)) - complex(y.subs(asg))) > 1e-10:
            return False
    return True


def eval_matrix(M, asg):
    return num(M.subs(asg) if asg else M)


def op_case(case):
    """{'op': descriptor, 'maps': [map descriptors]}"""
    op = mk_operation(case["op"])
    is_gate = hasattr(op, "gate")
    base_M = op.gate.matrix if is_gate else None
    k = 0
    nt = False
    for md in case["maps"]:
        m = mk_map(md)
        if not is_gate and any(sympy.sympify(v).is_real is False for v in m.values()):
            continue      # a MultiPhaseOperation is defined for real phases only
        m_items = list(m.items())
        bound = op.bind(m)
        k += 1
        where = "op %s bind %s" % (case["op"], {str(a): str(b) for a, b in m_items})
        if list(m.items()) != m_items:
            return {"ok": False, "msg": where + ": the caller's symbol map was modified (now %s)" % m, "sig": "bind:map-modified", "ops": k}
        if is_gate:
            gb = op.gate.bind(m)
            if list(m.items()) != m_items or len(gb.params) != len(bound.params) or not all(same_expr(x, y) for x, y in zip(gb.params, bound.params)):
                return {"ok": False, "msg": where + ": gate.bind disagrees with operation.bind or modified the map", "sig": "bind:gate-vs-op", "ops": k}
        if type(bound) is not type(op) or (is_gate and tuple(bound.qubit_indices) != tuple(op.qubit_indices)):
            return {"ok": False, "msg": where + ": result is not the same kind of operation on the same qubits", "sig": "bind:kind", "ops": k}
        exp_params = [expected_param(p, m) for p in op.params]
        for p0, pe, pb in zip(op.params, exp_params, bound.params):
            if not isinstance(p0, sympy.Basic):
                if pb is not p0 and not (type(pb) is type(p0) and pb == p0):
                    return {"ok": False, "msg": where + ": numeric parameter %r was touched (became %r)" % (p0, pb), "sig": "bind:number-touched", "ops": k}
            elif not same_expr(pe, pb):
                return {"ok": False, "msg": where + ": parameter %s became %s, substitution gives %s" % (p0, pb, pe), "sig": "bind:param", "ops": k}
        if len(bound.params) != len(op.params):
            return {"ok": False, "msg": where + ": number of parameters changed", "sig": "bind:param-count", "ops": k}
        want_free = set()
        for p in exp_params:
            if isinstance(p, sympy.Basic):
                want_free |= p.free_symbols
        got_free = list(bound.free_symbols)
        if set(got_free) != want_free or len(got_free) != len(set(got_free)):
            return {"ok": False, "msg": where + ": free symbols %s, parameters depend on %s" % (got_free, sorted(want_free, key=str)), "sig": "bind:free-symbols", "ops": k}
        if is_gate and set(bound.gate.free_symbols) != want_free:
            return {"ok": False, "msg": where + ": gate.free_symbols disagrees", "sig": "bind:gate-free-symbols", "ops": k}
        if is_gate:
            sub = base_M.subs(m, simultaneous=True) if m else base_M
            for asg in assignments(want_free):
                X, Y = eval_matrix(bound.gate.matrix, asg), eval_matrix(sub, asg)
                k += 1
                if X.shape != Y.shape or not _close(X, Y, atol=ATOL):
                    return {"ok": False, "msg": where + ": bind-then-evaluate differs from evaluate-then-substitute (remaining symbols at %s)" % {str(a): b for a, b in asg.items()},
                            "expected": str(np.round(Y, 4).tolist())[:300], "observed": str(np.round(X, 4).tolist())[:300], "sig": "bind:matrix", "ops": k}
        elif not want_free:
            v = np.ones(len(op.params), dtype=complex) / np.sqrt(len(op.params))
            got = np.asarray(bound.apply(v), dtype=complex)
            exp = np.exp(1j * np.array([float(sympy.sympify(p)) for p in exp_params])) * v
            if not _close(got, exp, atol=ATOL):
                return {"ok": False, "msg": where + ": bound MultiPhaseOperation applies other phases than substitution gives", "sig": "bind:mp-apply", "ops": k}
        # every split of the map
        items = list(m.items())
        for r in range(0, len(items) + 1):
            for part in itertools.combinations(range(len(items)), r):
                m1 = {items[i][0]: items[i][1] for i in part}
                m2 = {kk: v for kk, v in items if kk not in m1}
                two = op.bind(m1).bind(m2)
                k += 1
                if len(two.params) != len(bound.params) or not all(same_expr(x, y) for x, y in zip(two.params, bound.params)):
                    return {"ok": False, "msg": where + ": binding in two steps %s then %s differs from binding once" % ({str(a): str(b) for a, b in m1.items()}, {str(a): str(b) for a, b in m2.items()}),
                            "expected": str(bound.params), "observed": str(two.params), "sig": "bind:split", "ops": k}
        if any(s in m for p in op.params if isinstance(p, sympy.Basic) for s in p.free_symbols):
            nt = True
        # the receiver is untouched
    if [str(p) for p in mk_operation(case["op"]).params] != [str(p) for p in op.params]:
        return {"ok": False, "msg": "bind modified its receiver", "sig": "bind:mutated"}
    return {"ok": True, "nt": nt, "ops": k, "out": case["op"]["k"]}


def refuse_case(case):
    """Power / Exponential (also under controlled/dagger, and through Circuit.bind) refuse binding with NotImplementedError for every map"""
    from orquestra.quantum import circuits as C
    op = mk_operation(case["op"])
    for md in case["maps"]:
        m = mk_map(md)
        for target, what in ((op.gate, "gate"), (op, "operation"), (C.Circuit([C.X(0), op]), "circuit")):
            try:
                r = target.bind(m)
            except NotImplementedError:
                continue
            except Exception as e:  # noqa: BLE001
                return {"ok": False, "msg": "%s.bind(%s) of %s raised %s instead of NotImplementedError" % (what, md, case["op"], type(e).__name__), "sig": "refuse:type"}
            return {"ok": False, "msg": "%s.bind(%s) of %s returned %s instead of refusing" % (what, md, case["op"], r), "sig": "refuse:accepted"}
    return {"ok": True, "nt": True, "ops": 3 * len(case["maps"]), "out": "refused"}


def circuit_case(case):
    """{'ops': [op descriptors], 'n': width, 'maps': [...]}"""
    from orquestra.quantum import circuits as C
    ops = [mk_operation(o) for o in case["ops"]]
    c = C.Circuit(ops, n_qubits=case["n"])
    # free symbols: duplicate-free, union, first appearance between operations
    fs = list(c.free_symbols)
    union = set()
    order_groups = []
    for o in ops:
        new = set(o.free_symbols) - union
        order_groups.append(new)
        union |= set(o.free_symbols)
    if len(fs) != len(set(fs)) or set(fs) != union:
        return {"ok": False, "msg": "circuit.free_symbols %s is not the duplicate-free union %s" % (fs, sorted(union, key=str)), "sig": "circuit:free-symbols"}
    pos = 0
    for grp in order_groups:
        if set(fs[pos:pos + len(grp)]) != grp:
            return {"ok": False, "msg": "circuit.free_symbols %s does not follow first appearance" % fs, "sig": "circuit:free-symbol-order"}
        pos += len(grp)
    if (not fs) != all(not (isinstance(p, sympy.Basic) and p.free_symbols) for o in ops for p in o.params):
        return {"ok": False, "msg": "free_symbols empty <=> all parameters symbol-free violated", "sig": "circuit:free-symbols-empty"}
    k = 1
    n = case["n"]
    for md in case["maps"]:
        m = mk_map(md)
        m_items = list(m.items())
        b = c.bind(m)
        k += 1
        if list(m.items()) != m_items:
            return {"ok": False, "msg": "Circuit.bind modified the caller's symbol map: %s became %s" % (dict(m_items), m), "sig": "circuit:map-modified", "ops": k}
        if b.n_qubits != n or len(b.operations) != len(ops):
            return {"ok": False, "msg": "Circuit.bind changed the width or the number of operations", "sig": "circuit:shape", "ops": k}
        want = set().union(*[expected_param(p, m).free_symbols if isinstance(expected_param(p, m), sympy.Basic) else set() for o in ops for p in o.params]) if ops else set()
        if set(b.free_symbols) != want:
            return {"ok": False, "msg": "bound circuit reports free symbols %s, parameters depend on %s" % (b.free_symbols, sorted(want, key=str)), "sig": "circuit:bound-free-symbols", "ops": k}
        for asg in assignments(want)[:1]:
            U = np.eye(2 ** n, dtype=complex)
            V = np.eye(2 ** n, dtype=complex)
            for o0, o1 in zip(ops, b.operations):
                if tuple(o0.qubit_indices) != tuple(o1.qubit_indices):
                    return {"ok": False, "msg": "Circuit.bind changed operation order/indices", "sig": "circuit:order", "ops": k}
                # binding a circuit is binding each operation: same gate structure (kind, nesting, name, arity) as the operation bound on its own
                from mc.snapshot import operation as opsnap

                def skeleton(d):
                    return {kk: (skeleton(v) if isinstance(v, dict) else v) for kk, v in d.items() if kk not in ("params",)} if isinstance(d, dict) else d
                if skeleton(opsnap(o1)) != skeleton(opsnap(o0.bind(m))) or o1.gate.num_qubits != o0.gate.num_qubits:
                    return {"ok": False, "msg": "Circuit.bind turned operation %s into %s (binding the operation on its own gives %s)" % (o0, o1, o0.bind(m)), "sig": "circuit:operation-changed", "ops": k}
                M0 = eval_matrix(o0.gate.matrix.subs(m, simultaneous=True), asg)
                M1 = eval_matrix(o1.gate.matrix, asg)
                U = L.embed(M0, tuple(o0.qubit_indices), n) @ U
                V = L.embed(M1, tuple(o1.qubit_indices), n) @ V
            if not _close(U, V, atol=ATOL):
                return {"ok": False, "msg": "circuit: bind-then-evaluate differs from evaluate-then-substitute for map %s" % md, "sig": "circuit:matrix", "ops": k}
            if not want:
                W = num(b.to_unitary())
                if not _close(W, V, atol=ATOL):
                    return {"ok": False, "msg": "fully bound circuit: to_unitary differs from the product of bound gate matrices", "sig": "circuit:to_unitary", "ops": k}
    return {"ok": True, "nt": bool(fs), "ops": k, "out": "len%d" % len(ops)}


def long_circuit_case(case):
    """{'order': permutation seed, 'L': length}: a circuit of L operations over 12 symbols whose names sort differently as text and as numbers (x2, x10, x[3], x[12], beta_2,
    beta_10 ...): free symbols in first-appearance order, Circuit.bind = per-operation substitution for partial maps, several partial steps = one step"""
    from orquestra.quantum import circuits as C
    names = ["x2", "x10", "x1", "x[3]", "x[12]", "beta_2", "beta_10", "theta", "a", "B", "x[1]", "zeta"]
    syms = [sympy.Symbol(nm) for nm in names]
    rot = case["order"] % len(syms)
    syms = syms[rot:] + syms[:rot]
    ops = []
    for i in range(case["L"]):
        s1, s2, s3 = syms[(i * 5) % 12], syms[(i * 7 + 3) % 12], syms[(i + 1) % 12]
        kind = i % 6
        if kind == 0:
            ops.append(C.RX(s1)(i % 3))
        elif kind == 1:
            ops.append(C.U3(s2 + 0.5, 2 * s1, s3 * s1)(i % 3))
        elif kind == 2:
            ops.append(C.CPHASE(s1 - s2)((i + 1) % 3, i % 3))
        elif kind == 3:
            ops.append(C.RY(sympy.cos(s3)).controlled(1).dagger(i % 3, (i + 2) % 3))
        elif kind == 4:
            ops.append(C.MultiPhaseOperation((s1, 0.5, s2, s1 + s3, 0.0, 1.5, s3, -s2)))
        else:
            ops.append(C.RZ(0.25 * (i + 1))(i % 3))
    c = C.Circuit(ops, n_qubits=3)
    fs = list(c.free_symbols)
    union, pos = set(), 0
    for o in ops:
        new = set(o.free_symbols) - union
        if set(fs[pos:pos + len(new)]) != new:
            return {"ok": False, "msg": "circuit.free_symbols %s does not follow first appearance (operation %s introduces %s)" % (fs, o, sorted(new, key=str)), "sig": "long:free-symbol-order"}
        pos += len(new)
        union |= new
    if len(fs) != len(union) or set(fs) != union:
        return {"ok": False, "msg": "circuit.free_symbols %s is not the duplicate-free union of the operations' symbols" % fs, "sig": "long:free-symbols"}
    k = 1
    vals = [0.3, -1.2, 0, sympy.Rational(1, 3), E, 2.5, 0.0, 7, -0.4, 1.1, sympy.pi, 0.9]
    maps = [{}, {s_: vals[j] for j, s_ in enumerate(syms)}] + [{s_: vals[j] for j, s_ in enumerate(syms) if (j + sh) % 3 == 0} for sh in range(3)] + \
           [{s_: vals[j] for j, s_ in enumerate(syms) if j % 2 == par} for par in (0, 1)] + [{syms[j]: vals[j]} for j in range(12)]
    for m in maps:
        b = c.bind(m)
        k += 1
        if b.n_qubits != 3 or len(b.operations) != len(ops):
            return {"ok": False, "msg": "Circuit.bind changed the width or the number of operations", "sig": "long:shape", "ops": k}
        for o0, o1 in zip(ops, b.operations):
            exp = [expected_param(p, m) for p in o0.params]
            if type(o1) is not type(o0) or len(o1.params) != len(exp) or not all(same_expr(x, y) for x, y in zip(exp, o1.params)):
                return {"ok": False, "msg": "Circuit.bind(%s): operation %s became %s, substitution gives parameters %s" % ({str(a_): str(v) for a_, v in m.items()}, o0, o1, exp), "sig": "long:param", "ops": k}
        want = set()
        for o0 in ops:
            for p in o0.params:
                e_ = expected_param(p, m)
                if isinstance(e_, sympy.Basic):
                    want |= e_.free_symbols
        if set(b.free_symbols) != want or len(list(b.free_symbols)) != len(want):
            return {"ok": False, "msg": "bound circuit reports free symbols %s, parameters depend on %s" % (b.free_symbols, sorted(want, key=str)), "sig": "long:bound-free-symbols", "ops": k}
        items = list(m.items())
        if len(items) >= 2:
            two = c.bind(dict(items[: len(items) // 2])).bind(dict(items[len(items) // 2:]))
            k += 1
            for o1, o2 in zip(b.operations, two.operations):
                if len(o1.params) != len(o2.params) or not all(same_expr(x, y) for x, y in zip(o1.params, o2.params)):
                    return {"ok": False, "msg": "binding the long circuit in two steps differs from binding once", "sig": "long:split", "ops": k}
    return {"ok": True, "nt": True, "ops": k, "out": "L%d" % case["L"]}


def assume_case(case):
    """{'kind': symbol flavour}: symbols carrying assumptions / Dummy symbols are ordinary symbols for binding: gate.bind, operation.bind and Circuit.bind
    substitute them, report the remaining free symbols and give the matrix obtained by substitution"""
    from orquestra.quantum import circuits as C
    kind = case["kind"]
    mk = {"real": lambda n: sympy.Symbol(n, real=True), "positive": lambda n: sympy.Symbol(n, positive=True), "dummy": lambda n: sympy.Dummy(n),
          "integer": lambda n: sympy.Symbol(n, integer=True), "plain": lambda n: sympy.Symbol(n)}[kind]
    t, ph, lm = mk("theta"), mk("phi"), mk("lam")
    ops = [C.RX(t)(0), C.U3(t, ph, lm)(1), C.CPHASE(t + 2 * ph)(1, 0), C.RY(ph).controlled(1)(0, 2), custom_definition("custom1p")(t, lm)(2), C.RZ(lm).dagger(0),
           C.MultiPhaseOperation((t, ph, 0.5, t + lm))]
    n = 3
    k = 0
    for m in ({t: 0.3}, {t: 0.3, ph: -1.2}, {t: 0.3, ph: -1.2, lm: 0.7}, {ph: E, lm: 0.7}, {t: 0, ph: 0.0, lm: sympy.Integer(0)}, {}):
        circ = C.Circuit(ops, n_qubits=n)
        bc = circ.bind(m)
        k += 1
        for o0, o1 in zip(ops, bc.operations):
            targets = [(o1, "Circuit.bind"), (o0.bind(m), "operation.bind")] + ([(o0.gate.bind(m), "gate.bind")] if hasattr(o0, "gate") else [])
            for target, what in targets:
                exp_params = [expected_param(p, m) for p in o0.params]
                if len(target.params) != len(exp_params) or not all(same_expr(x, y) for x, y in zip(exp_params, target.params)):
                    return {"ok": False, "msg": "%s symbols: %s(%s) of %s has parameters %s, substitution gives %s" % (kind, what, m, o0, target.params, exp_params), "sig": "assume:param", "ops": k}
                want = set().union(*[p.free_symbols for p in exp_params if isinstance(p, sympy.Basic)] or [set()])
                if set(target.free_symbols) != want:
                    return {"ok": False, "msg": "%s symbols: %s(%s) of %s reports free symbols %s, expected %s" % (kind, what, m, o0, target.free_symbols, want), "sig": "assume:free", "ops": k}
                k += 1
        want = set().union(*[set(expected_param(p, m).free_symbols) for o in ops for p in o.params if isinstance(expected_param(p, m), sympy.Basic)])
        if set(bc.free_symbols) != want:
            return {"ok": False, "msg": "%s symbols: bound circuit reports free symbols %s, expected %s" % (kind, bc.free_symbols, want), "sig": "assume:circuit-free", "ops": k}
        if not want:
            for o0, o1 in zip(ops[:-1], bc.operations[:-1]):
                if not _close(num(o1.gate.matrix), num(o0.gate.matrix.subs(m, simultaneous=True)), atol=ATOL):
                    return {"ok": False, "msg": "%s symbols: fully bound %s differs from the substituted matrix" % (kind, o0), "sig": "assume:matrix", "ops": k}
    # two DISTINCT symbols that print alike (two Dummy symbols of one name; a plain symbol next to one with assumptions) inside one operation / one parameter
    twins = {"plain": (sympy.Symbol("phi"), sympy.Symbol("phi", real=True)), "real": (sympy.Symbol("phi", real=True), sympy.Symbol("phi", positive=True)), "positive": (sympy.Symbol("x", positive=True), sympy.Symbol("x")),
             "dummy": (sympy.Dummy("phi"), sympy.Dummy("phi")), "integer": (sympy.Symbol("n", integer=True), sympy.Dummy("n"))}[kind]
    p1, p2 = twins
    for o0 in (C.MS(p1, p2)(0, 1), C.CPHASE(p1 + 2 * p2)(1, 0), C.U3(p1, 0.5, p2)(0), C.RY(p1 * p2).controlled(1)(0, 1), custom_definition("custom1p")(p2, p1)(0), C.MultiPhaseOperation((p1, p2))):
        circ = C.Circuit([o0] if hasattr(o0, "gate") else [C.X(0), o0])
        for target, what in ((o0, "operation"), (circ, "circuit")) + (((o0.gate, "gate"),) if hasattr(o0, "gate") else ()):
            fs = list(target.free_symbols)
            k += 1
            if set(fs) != {p1, p2} or len(fs) != 2:
                return {"ok": False, "msg": "%s symbols: %s %s depends on two distinct symbols that print alike (%r, %r) but reports the free symbols %r" % (kind, what, o0, p1, p2, fs), "sig": "assume:twins-free", "ops": k}
            for m in ({p1: 0.3}, {p2: -1.2}, {p1: 0.3, p2: -1.2}):
                b = target.bind(m)
                k += 1
                want = {p1, p2} - set(m)
                if set(b.free_symbols) != want:
                    return {"ok": False, "msg": "%s symbols: %s %s bound with %s reports the free symbols %r, expected %r" % (kind, what, o0, m, list(b.free_symbols), want), "sig": "assume:twins-bound-free", "ops": k}
                got = list(b.params) if what != "circuit" else list(b.operations[-1].params)
                exp_params = [expected_param(p, m) for p in o0.params]
                if not all(same_expr(x, y) for x, y in zip(exp_params, got)):
                    return {"ok": False, "msg": "%s symbols: %s %s bound with %s has parameters %s, substitution gives %s" % (kind, what, o0, m, got, exp_params), "sig": "assume:twins-param", "ops": k}
    return {"ok": True, "nt": kind != "plain", "ops": k, "out": kind}


def map_history_case(case):
    """{'op': descriptor, 'hist': [[key index, value name] ...]}: ONE dictionary object is updated in place between binds (a parameter sweep); every bind must use
    the dictionary's CURRENT content, for operations, gates and circuits alike"""
    from orquestra.quantum import circuits as C
    op = mk_operation(case["op"])
    circ = C.Circuit([op] if hasattr(op, "gate") else [C.X(0), op])
    m = {}
    k = 0
    for key_i, vname in case["hist"]:
        if VALS[vname] is None:
            m.pop(KEYS[key_i], None)
        else:
            m[KEYS[key_i]] = VALS[vname]
        snapshot = dict(m)
        for target, what in ((op, "operation"), (circ, "circuit")) + (((op.gate, "gate"),) if hasattr(op, "gate") else ()):
            b = target.bind(m)
            k += 1
            got = list(b.params) if what != "circuit" else list(b.operations[-1].params)
            exp = [expected_param(p, snapshot) for p in op.params]
            if len(got) != len(exp) or not all(same_expr(x, y) for x, y in zip(exp, got)) or m != snapshot:
                return {"ok": False, "msg": "%s.bind with the map updated in place to %s: parameters %s, substitution gives %s" % (what, {str(a): str(v) for a, v in snapshot.items()}, got, exp),
                        "sig": "map-history:" + what, "ops": k}
    return {"ok": True, "nt": len(case["hist"]) >= 2, "ops": k, "out": case["op"]["k"]}


XMAPS = {"shift": {A: A + sympy.pi / 2}, "rescale": {A: 2 * A}, "shift2": {A: A + 0.25, B: B - 0.5}, "neg-b": {B: -B}, "square": {A: A * A, Cc: Cc + 1},
         "swap": {A: B, B: A}, "cycle": {A: B, B: Cc, Cc: A}, "mix": {A: A + B, B: A - B}, "chain-num": {A: B, B: 0.3}, "chain-sym": {A: 2 * B, B: Cc}, "chain-rev": {B: 0.3, A: B},
         "via-e": {A: E, E: 0.3}, "swap-partial": {A: Cc, Cc: A}}
XSELF = ("shift", "rescale", "shift2", "neg-b", "square")      # every value mentions only its own key: all splits and a follow-up numeric bind are well defined


def cross_map_case(case):
    """{'op': descriptor, 'maps': [names in XMAPS]}: maps whose VALUES mention symbols that are also KEYS (parameter shifts a -> a + pi/2, rescalings, swaps a <-> b, chains
    a -> b, b -> 0.3). 'Substituting the same values' is simultaneous substitution - what the library's own bare-symbol lookup does; a sequential reading depends on an order the
    caller cannot control - so: bound parameters = simultaneous substitution, bind-then-evaluate = evaluate-then-substitute, gate / operation / circuit agree, free symbols follow,
    the map is untouched; for self-referential maps additionally every split and shift-then-numbers = composed numbers"""
    from orquestra.quantum import circuits as C
    op = mk_operation(case["op"])
    is_gate = hasattr(op, "gate")
    circ = C.Circuit([op] if is_gate else [C.X(0), op])
    k = 0
    for name in case["maps"]:
        m = dict(XMAPS[name])
        m_items = list(m.items())
        where = "op %s bind %s" % (case["op"], {str(a): str(b) for a, b in m_items})
        exp_params = [expected_param(p, m) for p in op.params]
        want_free = set()
        for p in exp_params:
            if isinstance(p, sympy.Basic):
                want_free |= p.free_symbols
        targets = [(op, "operation.bind"), (circ, "Circuit.bind")] + ([(op.gate, "gate.bind")] if is_gate else [])
        for target, what in targets:
            b = target.bind(m)
            k += 1
            if list(m.items()) != m_items:
                return {"ok": False, "msg": where + ": %s modified the caller's map" % what, "sig": "xmap:map-modified", "ops": k}
            got = list(b.operations[-1].params) if what == "Circuit.bind" else list(b.params)
            if len(got) != len(exp_params) or not all(same_expr(x, y) for x, y in zip(exp_params, got)):
                return {"ok": False, "msg": where + ": %s gives parameters %s, substituting the map's values gives %s" % (what, got, exp_params), "sig": "xmap:param:" + what, "ops": k,
                        "expected": str(exp_params), "observed": str(got)}
            if set(b.free_symbols) != want_free:
                return {"ok": False, "msg": where + ": %s reports free symbols %s, parameters depend on %s" % (what, list(b.free_symbols), sorted(want_free, key=str)), "sig": "xmap:free", "ops": k}
        bound = op.bind(m)
        if is_gate:
            sub = op.gate.matrix.subs(m, simultaneous=True)
            for asg in assignments(want_free):
                X, Y = eval_matrix(bound.gate.matrix, asg), eval_matrix(sub, asg)
                k += 1
                if X.shape != Y.shape or not _close(X, Y, atol=ATOL):
                    return {"ok": False, "msg": where + ": bind-then-evaluate differs from evaluate-then-substitute", "sig": "xmap:matrix", "ops": k,
                            "expected": str(np.round(Y, 4).tolist())[:300], "observed": str(np.round(X, 4).tolist())[:300]}
        if name in XSELF:
            items = list(m.items())
            for r in range(1, len(items)):
                for part in itertools.combinations(range(len(items)), r):
                    m1 = {items[i][0]: items[i][1] for i in part}
                    m2 = {kk: v for kk, v in items if kk not in m1}
                    two = op.bind(m1).bind(m2)
                    k += 1
                    if len(two.params) != len(bound.params) or not all(same_expr(x, y) for x, y in zip(two.params, bound.params)):
                        return {"ok": False, "msg": where + ": binding in two steps differs from binding once", "sig": "xmap:split", "ops": k}
            nums = {A: 0.37, B: -1.21, Cc: 2.05}
            composed = {s_: (sympy.sympify(m[s_]).subs(nums) if s_ in m else nums[s_]) for s_ in nums}
            for target, what in targets:
                x = target.bind(m).bind(nums)
                y = target.bind(composed)
                k += 1
                px = list(x.operations[-1].params) if what == "Circuit.bind" else list(x.params)
                py = list(y.operations[-1].params) if what == "Circuit.bind" else list(y.params)
                if len(px) != len(py) or not all(abs(complex(sympy.sympify(u)) - complex(sympy.sympify(v))) < 1e-10 for u, v in zip(px, py)):
                    return {"ok": False, "msg": where + ": %s of the shifted map followed by numbers %s gives %s, binding the composed numbers gives %s" % (what, nums, px, py), "sig": "xmap:compose", "ops": k}
    if [str(p) for p in mk_operation(case["op"]).params] != [str(p) for p in op.params]:
        return {"ok": False, "msg": "bind modified its receiver", "sig": "xmap:mutated"}
    return {"ok": True, "nt": True, "ops": k, "out": case["op"]["k"]}


def map_kind_case(case):
    """{'op': descriptor, 'items': [[key index, value name]...]}: the symbol map handed over as another Mapping kind (defaultdict, Counter, OrderedDict, ChainMap, MappingProxyType, a dict
    subclass with __missing__): a PARTIAL map binds exactly its items - a symbol that is absent stays free whatever the mapping would invent for it - and the caller's mapping is not written to"""
    import collections
    import types
    from orquestra.quantum import circuits as C

    class Inventing(dict):
        def __missing__(self, key):
            return 7.0

    op = mk_operation(case["op"])
    is_gate = hasattr(op, "gate")
    circ = C.Circuit([op] if is_gate else [C.X(0), op])
    plain = {KEYS[i]: VALS[v] for i, v in case["items"]}
    numeric_only = all(isinstance(v, (int, float)) for v in plain.values())
    kinds = [("defaultdict(float)", lambda: collections.defaultdict(float, plain)), ("defaultdict(lambda: 1.5)", lambda: collections.defaultdict(lambda: 1.5, plain)), ("OrderedDict", lambda: collections.OrderedDict(plain)),
             ("ChainMap", lambda: collections.ChainMap({}, dict(plain))), ("dict subclass with __missing__", lambda: Inventing(plain))]
    if numeric_only:
        kinds.append(("Counter", lambda: collections.Counter(plain)))
    exp = [expected_param(p, plain) for p in op.params]
    k = 0
    for kname, mkm in kinds:
        for target, what in ((op, "operation"), (circ, "circuit")) + (((op.gate, "gate"),) if is_gate else ()):
            m = mkm()
            keys_before = list(m.keys())
            for rep in (1, 2):
                try:
                    b = target.bind(m)
                except Exception as ex:  # noqa: BLE001
                    return {"ok": False, "msg": "%s.bind with a %s raises %s: %s" % (what, kname, type(ex).__name__, str(ex)[:100]), "sig": "mapkind:raises", "ops": k}
                k += 1
                got = list(b.params) if what != "circuit" else list(b.operations[-1].params)
                if len(got) != len(exp) or not all(same_expr(x, y) for x, y in zip(exp, got)):
                    return {"ok": False, "msg": "%s.bind (call %d) with the partial map %s given as a %s: parameters %s, binding exactly its items gives %s" % (what, rep, {str(a): str(v) for a, v in plain.items()}, kname, got, exp),
                            "sig": "mapkind:param", "ops": k, "expected": str(exp), "observed": str(got)}
                if list(m.keys()) != keys_before:
                    return {"ok": False, "msg": "%s.bind wrote to the caller's %s: keys %s became %s" % (what, kname, [str(x) for x in keys_before], [str(x) for x in m.keys()]), "sig": "mapkind:map-modified", "ops": k}
    return {"ok": True, "nt": True, "ops": k, "out": case["op"]["k"]}


def domain_case(case):
    """{'def': custom definition name, 'w': wrappers, 'value': number}: a custom gate whose matrix holds sqrt / log / acos of its parameter, bound to a real number OUTSIDE the real domain
    of that function: bind-then-evaluate is the same (complex) matrix as evaluate-then-substitute - through gate, operation, circuit, wrappers and replace_params"""
    from orquestra.quantum import circuits as C
    d = custom_definition(case["def"])
    v = case["value"]
    g = d(A)
    for w in case.get("w", []):
        g = g.dagger if w == "dagger" else g.controlled(1)
    q = list(range(g.num_qubits))
    op = g(*q)
    want = num(op.gate.matrix.subs({A: v}))
    k = 0
    for what, bound in (("gate.bind", lambda: g.bind({A: v})), ("operation.bind", lambda: op.bind({A: v}).gate), ("Circuit.bind", lambda: C.Circuit([op]).bind({A: v}).operations[0].gate),
                        ("replace_params", lambda: g.replace_params((v,))), ("built with the number", lambda: (lambda h: [h := (h.dagger if w == "dagger" else h.controlled(1)) for w in case.get("w", [])] and h or h)(d(v)))):
        got = num(bound().matrix)
        k += 1
        if got.shape != want.shape or not np.allclose(got, want, atol=1e-10, rtol=0, equal_nan=False):
            return {"ok": False, "msg": "%s of %s%s at alpha = %r gives another matrix than evaluating symbolically and substituting" % (what, case["def"], case.get("w", []), v),
                    "expected": str(np.round(want, 6).tolist())[:300], "observed": str(got.tolist())[:300], "sig": "domain:matrix", "ops": k}
    return {"ok": True, "nt": True, "ops": k, "out": case["def"]}


def copies_case(case):
    """{'how': deepcopy | pickle | add-copy}: the SAME symbols reach one circuit as equal but distinct objects (a copied / unpickled circuit appended to the original): free symbols are
    reported once each, in first-appearance order, and binding them binds every occurrence"""
    import copy
    import pickle
    from orquestra.quantum import circuits as C
    c = C.Circuit([C.RX(A)(0), C.CPHASE(A + 2 * B)(1, 0), C.U3(Cc, 0.5, A)(1), custom_definition("custom1p")(B, Cc)(0)])
    twin = {"deepcopy": lambda: copy.deepcopy(c), "pickle": lambda: pickle.loads(pickle.dumps(c)), "rebuilt": lambda: C.Circuit([C.RX(sympy.Symbol("alpha"))(0), C.RZ(sympy.Symbol("c") * sympy.Symbol("beta"))(1)])}[case["how"]]()
    both = c + twin
    fs = list(both.free_symbols)
    if len(fs) != len(set(fs)) or set(fs) != {A, B, Cc} or len(fs) != 3:
        return {"ok": False, "msg": "a circuit followed by a %s copy of itself reports the free symbols %s" % (case["how"], fs), "expected": "[alpha, beta, c] once each", "observed": str(fs), "sig": "copies:free-symbols"}
    for m in ({A: 0.3}, {A: 0.3, B: -1.2}, {A: 0.3, B: -1.2, Cc: 0.7}):
        b = both.bind(m)
        if set(b.free_symbols) != {A, B, Cc} - set(m) or len(list(b.free_symbols)) != 3 - len(m):
            return {"ok": False, "msg": "circuit + %s copy bound with %s reports the free symbols %s" % (case["how"], m, list(b.free_symbols)), "sig": "copies:bound-free-symbols"}
    return {"ok": True, "nt": True, "ops": 4, "out": case["how"]}


FUNCS = {"custom_domains": domain_case, "symbol_copies": copies_case, "map_kinds": map_kind_case, "cross_maps": cross_map_case, "long_circuits": long_circuit_case, "map_histories": map_history_case, "assumption_symbols": assume_case, "operations": op_case, "refusals": refuse_case, "circuits": circuit_case}


def op_alphabet(thorough):
    ops = []
    P = [x for x in PEXPR if thorough or x not in ("sum", "int+a")]    # quick: bound-variable parameters only in the dedicated operations at the end (each costs seconds in sympy)
    for k, q in (("RX", [0]), ("RZ", [1]), ("PHASE", [0]), ("CPHASE", [1, 0]), ("XX", [0, 2])):
        for p in (P if thorough or k in ("RX", "CPHASE") else P[::2]):
            ops.append({"k": k, "p": [p], "q": q})
    for t in (("a", "b", "c"), ("a", "a", "0.5"), ("a+b", "3", "cos(a)"), ("0.5", "pi", "F0.25"), ("b", "a", "ab")):
        ops.append({"k": "U3", "p": list(t), "q": [1]})
    for t in (("a", "b"), ("b", "a"), ("a+0.5", "c"), ("0.5", "3")):
        ops.append({"k": "MS", "p": list(t), "q": [0, 1]})
    for w in (["c1"], ["c2"], ["dagger"], ["dagger", "c1"], ["c1", "dagger"]):
        for p in ("a", "a+b", "0.5", "ab"):
            ops.append({"k": "RY", "p": [p], "q": list(range(1 + sum(int(x[1:]) for x in w if x[0] == "c")))[::-1], "w": w})
    for x, y in itertools.product(("a", "b", "c", "0.5"), repeat=2):
        ops.append({"k": "custom", "p": [x, y], "q": [0]})
        if thorough or x != y:
            ops.append({"k": "custom", "p": [x, y], "q": [1, 0], "w": ["c1"]})
    ops.append({"k": "custom", "p": ["a+b", "ab"], "q": [0], "w": ["dagger"]})
    for ps in (("a", "b"), ("a", "0.5", "a+b", "3"), ("0.5", "3"), ("2a", "cos(a)", "c", "b-c/2")):
        ops.append({"k": "mp", "p": list(ps), "q": []})
    ops += [{"k": "X", "q": [0]}, {"k": "CNOT", "q": [0, 1]}]
    ops += [{"k": "RX", "p": ["sum"], "q": [0]}, {"k": "RZ", "p": ["int+a"], "q": [1]}, {"k": "RY", "p": ["sum"], "q": [1, 0], "w": ["c1", "dagger"]}, {"k": "U3", "p": ["int+a", "sum", "b"], "q": [0]},
            {"k": "custom", "p": ["sum", "int+a"], "q": [0]}, {"k": "mp", "p": ["sum", "0.5", "int+a", "b"], "q": []}]
    return ops


def run(run):
    thorough = run.tier == "thorough"
    # key d is never used by any operation (a superfluous key): it gets its own small family instead of multiplying the map space
    vals = ["u", "0.3", "e", "-1.2", "1/3", "0", "0.0"] if thorough else ["u", "0.3", "e", "0"]
    maps = [list(m) + ["u"] for m in itertools.product(vals, repeat=3)] + [[x, y, "u", w] for x in ("u", "0.3") for y in ("u", "e") for w in ("0.3", "e", "0")]
    maps += [[x, y, z, "u"] for x, y, z in itertools.product(("u", "0.0"), repeat=3)][1:] + [[x, y, z, "u"] for x, y, z in itertools.product(("u", "S0"), repeat=3)][1:]
    maps += [[x, y, "u", "u"] for x in ("z", "zs") for y in ("u", "0.3", "z")] + [["u", "zs", "z", "u"], ["0.3", "z", "u", "u"]]
    ops = op_alphabet(thorough)
    blk = 9     # small blocks, dealt one by one: the few slow operations (U3: sympy.simplify per evaluation; Sum / Integral parameters) spread over all workers
    cases = [{"op": o, "maps": maps[i:i + blk]} for o in ops for i in range(0, len(maps), blk)]
    secs = [Section("operations", cases, op_case, horizon=600, chunk=1, desc="%d operations x all %d maps: parameters, matrices, free symbols, all splits" % (len(ops), len(maps)))]
    R = [{"k": "T", "q": [0], "w": ["p3.0"]}, {"k": "T", "q": [0], "w": ["p0.5"]}, {"k": "RX", "p": ["0.5"], "q": [0], "w": ["exp"]}, {"k": "X", "q": [1, 0], "w": ["p2.0", "c1"]},
         {"k": "X", "q": [0], "w": ["exp", "dagger"]}, {"k": "T", "q": [1, 0], "w": ["exp", "c1"]}, {"k": "T", "q": [0], "w": ["dagger", "p2.0"]}]
    secs.append(Section("refusals", [{"op": o, "maps": [["u"] * 4, ["0.3", "u", "u", "u"], ["0.3", "e", "0.3", "0.3"]]} for o in R], refuse_case, desc="power/exp refuse binding with NotImplementedError, for every map incl. {}"))
    sub = [o for o in ops if o["k"] != "mp"][::max(1, len(ops) // (30 if thorough else 18))]
    cmaps = [list(m) for m in itertools.product(["u", "0.3", "e"], repeat=3)]
    cmaps = [m + ["u"] for m in cmaps]
    cc = [{"ops": [], "n": 2, "maps": cmaps[:2]}]
    for a in sub:
        for b in sub:
            cc.append({"ops": [a, b], "n": 3, "maps": cmaps[:: (1 if thorough else 4)]})
    secs.append(Section("circuits", cc, circuit_case, horizon=600, chunk=4, desc="all 2-operation circuits over a %d-operation sub-alphabet: bind keeps width/order, free symbols, unitary" % len(sub)))
    hops = [{"k": "RX", "p": ["2a"], "q": [0]}, {"k": "CPHASE", "p": ["a+b"], "q": [1, 0]}, {"k": "U3", "p": ["a", "ab", "cos(a)"], "q": [0]}, {"k": "custom", "p": ["b", "a+b"], "q": [0]},
            {"k": "RY", "p": ["ab"], "q": [1, 0], "w": ["c1"]}, {"k": "mp", "p": ["2a", "cos(a)", "c", "b-c/2"], "q": []}, {"k": "RZ", "p": ["a"], "q": [0]}]
    hev = [[0, "0.3"], [0, "-1.2"], [0, "e"], [1, "0.3"], [1, "0"], [0, "u"], [2, "1/3"]]
    hh = [{"op": o, "hist": [hev[i] for i in combo]} for o in hops for d in (2, 3) for combo in itertools.product(range(len(hev)), repeat=d) if len(set(combo)) == d or d == 2]
    secs.append(Section("map_histories", hh if thorough else hh[::2], map_history_case, horizon=600, desc="one symbol map updated in place between binds (every history of 2-3 updates over 7): each bind sees the current content"))
    secs.append(Section("long_circuits", [{"order": o, "L": L_} for o in range(12) for L_ in ((7, 40, 130) if thorough else (7, 40))], long_circuit_case, horizon=900, chunk=1,
                        desc="circuits of 7 / 40 (thorough 130) operations over 12 symbols named x2, x10, x[3], x[12], beta_2, beta_10 ...: first-appearance order, 19 partial maps, two-step binds"))
    secs.append(Section("assumption_symbols", [{"kind": k} for k in ("plain", "real", "positive", "dummy", "integer")], assume_case, horizon=600, chunk=1,
                        desc="symbols with assumptions / Dummy symbols through gate.bind, operation.bind, Circuit.bind"))
    secs.append(Section("custom_domains", [{"def": d_, "w": w_, "value": v_} for d_, vals_ in (("custom1s", (-0.3, 1.7, 0.25, -2, 0.0, 1)), ("custom1l", (-0.5, 2.5, 0.5, -3))) for w_ in ([], ["dagger"], ["c1"], ["c1", "dagger"])
                                            for v_ in vals_], domain_case, horizon=300, desc="custom gates with sqrt / log / acos entries bound to real numbers outside the real domain: the complex matrix of evaluate-then-substitute"))
    secs.append(Section("symbol_copies", [{"how": h_} for h_ in ("deepcopy", "pickle", "rebuilt")], copies_case, desc="a circuit followed by a deep-copied / unpickled / rebuilt copy of itself: free symbols once each"))
    mk_items = [[[1, "0.3"]], [[0, "0.3"]], [[2, "-1.2"], [3, "0.3"]], [[1, "e"]], [[0, "0"], [1, "0.3"]], []]
    secs.append(Section("map_kinds", [{"op": o, "items": it} for o in hops for it in mk_items], map_kind_case, horizon=300, desc="partial maps given as defaultdict / Counter / OrderedDict / ChainMap / dict subclass "
                        "with __missing__: exactly the items are bound, absent symbols stay free, the mapping is not written to"))
    xops = [o for o in ops if o["k"] != "mp" or "sum" not in o["p"]]
    xops = [o for o in xops if not any(p in ("sum", "int+a") for p in o.get("p", []))]
    secs.append(Section("cross_maps", [{"op": o, "maps": list(XMAPS)} for o in (xops if thorough else xops[::2] + xops[1::6])], cross_map_case, horizon=600, chunk=2,
                        desc="maps whose values mention keys (shift a -> a + pi/2, rescale, swap a <-> b, cycle, chains): simultaneous substitution through gate / operation / circuit"))
    run.run_sections(secs)
