"""C07 - gate modifiers (dagger, controlled, power, exp) mean what they say (E1, step-wise oracle; cut-off for algebraic chains)."""
import itertools

import numpy as np
from mc.ref.linalg import allclose as _close
import sympy

from mc.engine import Section, jdump
from mc.gates import G, W, mk_gate, num
from mc.ref import linalg as L
from mc import cutoff

RULE = ("bases: 23 built-in/custom gates; modifiers: dagger, controlled(1|2), power(2|3|-1|0|1/2|1/3), exp; chains applied through the public methods: "
        "all chains of depth <= D with at most one transcendental modifier (fractional power / exp) + listed transcendental-on-transcendental chains. "
        "Step-wise oracle: the matrix of m(g) is compared with the definition applied to the implementation's own numeric matrix of g "
        "(dagger: conjugate transpose; controlled(k): identity block then g; integer power: repeated product/inverse; power(1/q): ANY R with R^q = g; "
        "exp: scaling-and-squaring Taylor series), plus num_qubits, params, replace_params. For dagger/controlled/integer-power chains over "
        "one-parameter bases the residual is a trigonometric polynomial: certificate grid => all real parameters. non-trivial = chain of length >= 1 whose "
        "last step changes the matrix")
RULE += ' Also: replace_params with tuples containing exact zeros / ints; bases at special parameter points (identity / Hermitian matrices) and with exact sympy parameters.'
RULE += ' Round 7: unit-fraction exponents as sympy.Rational / Fraction / sympy.Float; custom definitions borrowing a built-in name; a non-normal two-qubit custom matrix under exp.'
RULE += ' Round 6: power(1/q).power(p) for every q up to 130 (260) and p in {3, q-1, q, 2q}; nested exponentials over non-diagonalisable custom matrices.'
RULE += ' Round 5: power(1/q) for q up to 1024 over 10 bases.'
ASSUMPTIONS = ["numpy dense arithmetic; reference expm by Taylor scaling-and-squaring", "base gate matrices are decided by C02",
               "fractional powers and exp are checked at the listed parameter values only (not polynomial)"]
BOUNDS = {"quick": {"depth": 2, "transcendental_per_chain": 1, "matrix_qubits": 3}, "thorough": {"depth": 3, "transcendental_per_chain": "1 (+ all 180 depth-2 transcendental pairs)", "matrix_qubits": 3}}
ATOL = 1e-8

BASES = [G("X"), G("Y"), G("Z"), G("H"), G("T"), G("S"), G("SX"), G("RX", 0.3), G("RZ", -1.1), G("PHASE", 2.5), G("U3", 0.3, -1.1, 2.5), G("GPi", 0.3), G("CNOT"), G("CZ"), G("SWAP"),
         G("ISWAP"), G("CPHASE", 0.3), G("XX", 0.3), G("custom1"), G("custom2p", 0.3, 0.7), G("custom3"), G("customsym1"), G("customsym2")]
# exact symbolic parameter values: sympy evaluates exp(I*pi/3) to (-1)**(1/3) etc., so the imaginary unit is not syntactically visible in the matrix
EXACT_BASES = [G("U3", 0.3, 0.3, "s:pi/3"), G("U3", "s:pi", "s:pi/3", 0.5), G("RZ", "s:pi/3"), G("PHASE", "s:2*pi/3"), G("CPHASE", "s:pi/5"), G("RX", "s:pi/7"), G("XY", "s:pi/3"),
               G("MS", "s:pi/3", "s:pi/4"), G("GPi2", "s:pi/3"), G("customroot1"), G("custom2p", "s:pi/3", "s:pi/5")]
ALG = [["dagger"], ["controlled", 1], ["controlled", 2], ["power", 2], ["power", 3], ["power", -1], ["power", 0]]
TRANS = [["power", "1/2"], ["power", "1/3"], ["exp"]]
NEWP = {1: (0.9,), 2: (0.9, -0.4), 3: (0.9, -0.4, 1.7)}
# further replacement tuples: exact zeros (a new value of 0 is a value), integers, and a Hermitian point
NEWP_MORE = {1: [(0,), (0.0,), (3,)], 2: [(0, -0.4), (0.9, 0.0), (0, 0)], 3: [(0, -0.4, 1.7), (0.9, 0.0, 0), (0, 0, 0)]}
import math as _math
# bases sitting at special points of their parameter space (identity / Hermitian matrices): flags computed there must not survive replace_params
SPECIAL_BASES = [G("custom1q", _math.pi), G("custom1q", 0), G("custom2p", 0, 0), G("custom1p", 0, 0.4), G("RZ", 0), G("PHASE", _math.pi), G("RX", 2 * _math.pi), G("U3", 0, 0, 0),
                 G("CPHASE", 0), G("MS", 0, 0), G("GPi", 0), G("XY", 0.0)]


def apply(g, m):
    if m[0] == "dagger":
        return g.dagger
    if m[0] == "controlled":
        return g.controlled(m[1])
    if m[0] == "exp":
        return g.exp
    e = m[1]
    if isinstance(e, str):
        kind = e[0] if e[0] in "RFS" else ""
        a, b = e.lstrip("RFS").split("/")
        if kind == "R":
            e = sympy.Rational(int(a), int(b))
        elif kind == "F":
            import fractions
            e = fractions.Fraction(int(a), int(b))
        elif kind == "S":
            e = sympy.Float(int(a) / int(b))
        else:
            e = int(a) / int(b)
    return g.power(e)


def frac(m):
    return m[0] == "power" and isinstance(m[1], str)


def trans(m):
    return m[0] == "exp" or frac(m)


def unwrap_controls(g):
    from orquestra.quantum.circuits import _gates
    while isinstance(g, _gates.ControlledGate):
        g = g.wrapped_gate
    return g


def expected_ok(prev, m, obs):
    """does obs satisfy the definition of modifier m applied to matrix prev?"""
    if m[0] == "dagger":
        return _close(obs, prev.conj().T, atol=ATOL), "conjugate transpose"
    if m[0] == "controlled":
        return obs.shape[0] == prev.shape[0] * 2 ** m[1] and _close(obs, L.controlled(prev, m[1]), atol=ATOL), "identity on the first basis states, then the original matrix"
    if m[0] == "exp":
        return _close(obs, L.expm(prev), atol=1e-7), "matrix exponential"
    if frac(m):
        q = int(m[1].split("/")[1])
        return _close(np.linalg.matrix_power(obs, q), prev, atol=1e-7), "a matrix whose %d-th power is the original" % q
    p = m[1]
    if p >= 0:
        return _close(obs, np.linalg.matrix_power(prev, p), atol=ATOL), "repeated product"
    return _close(obs, np.linalg.inv(np.linalg.matrix_power(prev, -p)), atol=ATOL), "inverse of the repeated product"


def classify(gi, m, prev, obs, exc):
    """root-cause signature of a failing step (for known_findings.json); default = generic"""
    from orquestra.quantum.circuits import _gates
    inner = unwrap_controls(gi)
    if exc is not None:
        def has_exp(g):
            while hasattr(g, "wrapped_gate"):
                if isinstance(g, _gates.Exponential):
                    return True
                g = g.wrapped_gate
            return False
        if trans(m) and has_exp(gi) and type(exc).__name__ in ("IndexError", "NotImplementedError", "MatrixError", "NonSquareMatrixError", "ValueError", "TypeError"):
            return "D19:sympy-refuses-function-of-exponential"
        # the same refusal over a fractional Power of a gate with generic float entries: sympy's Jordan-form based root / exponential meets a numerically singular eigenvector system
        if trans(m) and gi is inner and isinstance(inner, _gates.Power) and abs(inner.exponent - round(inner.exponent)) > 1e-12 and type(exc).__name__ in ("NonInvertibleMatrixError", "MatrixError"):
            return "D19:sympy-refuses-function-of-fractional-power"
        return "exception:" + type(exc).__name__
    if m[0] == "dagger" and isinstance(inner, _gates.Power) and abs(inner.exponent - round(inner.exponent)) > 1e-12:
        # what Power.dagger returns: the power of the dagger.  D15 iff observed is exactly that root of the wrapped gate's adjoint and differs from the adjoint
        q = round(1 / inner.exponent)
        base = num(inner.wrapped_gate.matrix)
        k = int(round(np.log2(obs.shape[0] / base.shape[0])))
        target = L.controlled(base.conj().T, k) if k > 0 else base.conj().T
        if abs(q * inner.exponent - 1) < 1e-9 and _close(np.linalg.matrix_power(obs, q), target, atol=1e-7):
            return "D15:dagger-of-fractional-power-is-power-of-dagger"
    if m[0] == "dagger":
        # the same root cause further up a chain: integer powers / controls sitting between the dagger and a fractional Power (X.power(1/2).power(3).dagger).
        # D15 iff the observed matrix is exactly the same wrappers applied to "the power of the dagger" (what Power.dagger hands back) and that is not the adjoint
        def over_power_of_dagger(g):
            if isinstance(g, _gates.Power):
                if abs(g.exponent - round(g.exponent)) > 1e-12:
                    return g.wrapped_gate.dagger.power(g.exponent)
                w = over_power_of_dagger(g.wrapped_gate)
                return None if w is None else w.power(g.exponent)
            if isinstance(g, _gates.ControlledGate):
                w = over_power_of_dagger(g.wrapped_gate)
                return None if w is None else w.controlled(g.num_control_qubits)
            return None
        try:
            alt = over_power_of_dagger(gi)
            if alt is not None and alt.num_qubits == gi.num_qubits and _close(num(alt.matrix), obs, atol=1e-7):
                return "D15:dagger-of-fractional-power-is-power-of-dagger"
        except Exception:  # noqa: BLE001
            pass
    if trans(m) and isinstance(inner, _gates.Power) and abs(inner.exponent - round(inner.exponent)) > 1e-12 and gi is inner:
        # D18: sympy moves a nested fractional power across the branch cut: the result is the function of the complex CONJUGATE of the wrapped matrix
        okc, _ = expected_ok(prev.conj(), m, obs)
        if okc:
            return "D18:function-of-conjugate-across-branch-cut"
    if m[0] == "power" and not frac(m) and m[1] < 0 and obs is not None:
        # D32: Power.matrix hands a NEGATIVE integer exponent to sympy's symbolic inverse; over a gate that contains a fractional Power the entries are unevaluated float powers of
        # +-I, a pivot that is really 0 is not recognised and the "inverse" comes back singular. Signature: the wrapped chain contains a fractional Power, the matrix being inverted
        # has an (exactly) zero diagonal entry, and the observed matrix is singular although the true inverse exists.
        def has_frac(g):
            while hasattr(g, "wrapped_gate"):
                if isinstance(g, _gates.Power) and abs(g.exponent - round(g.exponent)) > 1e-12:
                    return True
                g = g.wrapped_gate
            return False
        base_pow = np.linalg.matrix_power(prev, -m[1])
        if has_frac(gi) and np.min(np.abs(np.diag(prev))) < 1e-9 and abs(np.linalg.det(obs)) < 1e-6 and abs(np.linalg.det(base_pow)) > 0.5:
            return "D32:symbolic-inverse-misses-zero-pivot"
    return "step:" + m[0] + (":frac" if frac(m) else "")


def chain_case(case):
    """{'base': G, 'chain': [mods], 'maxq': q}"""
    g = mk_gate(case["base"])
    base_params = tuple(g.params)
    M = num(g.matrix)
    k = 0
    changed = False
    pending = None
    for i, m in enumerate(case["chain"]):
        gi = g
        g = apply(gi, m)
        nq_expected = gi.num_qubits + (m[1] if m[0] == "controlled" else 0)
        if g.num_qubits != nq_expected:
            return {"ok": False, "msg": "step %d %s: num_qubits is %s, implied %d" % (i, m, g.num_qubits, nq_expected), "sig": "num_qubits", "ops": k}
        if tuple(g.params) != base_params:
            return {"ok": False, "msg": "step %d %s: params changed" % (i, m), "expected": str(base_params), "observed": str(g.params), "sig": "params", "ops": k}
        if M is None or g.num_qubits > case.get("maxq", 3) or (trans(m) and g.num_qubits > 2):
            M = None    # too large to evaluate: the rest of the chain is still checked structurally (arity, params, replace_params)
            continue
        exc = None
        try:
            obs = num(g.matrix)
        except Exception as e:  # noqa: BLE001
            from mc.engine import Horizon
            if isinstance(e, Horizon):
                raise
            exc = e
        k += 1
        if exc is not None:
            return {"ok": False, "msg": "step %d %s of chain %s over %s: matrix cannot be computed: %s: %s" % (i, m, case["chain"], case["base"], type(exc).__name__, str(exc)[:100]),
                    "sig": classify(gi, m, M, None, exc), "ops": k}
        if obs.shape != (2 ** g.num_qubits, 2 ** g.num_qubits):
            return {"ok": False, "msg": "step %d %s: matrix dimension %s for %d qubits" % (i, m, obs.shape, g.num_qubits), "sig": "dimension", "ops": k}
        ok, what = expected_ok(M, m, obs)
        if not ok:
            r = {"ok": False, "msg": "step %d %s of chain %s over %s: matrix is not the %s" % (i, m, case["chain"], case["base"], what), "sig": classify(gi, m, M, obs, None),
                 "expected": what, "observed": str(np.round(obs, 4).tolist())[:400], "ops": k}
            if not r["sig"].startswith(("D15:", "D18:", "D32:")):
                return r
            # a listed root cause: remember it, and keep judging the later steps against what this step returned (the oracle is step-wise),
            # so that a different defect further down the chain is not hidden behind the known one
            pending = pending or r
        changed = not (obs.shape == M.shape and _close(obs, M, atol=1e-9))
        M = obs
    # replace_params: modifying the gate built with new parameters == replacing the parameters of the modified gate
    if base_params and all(isinstance(p, (int, float)) for p in base_params):
      for newp in [NEWP[len(base_params)]] + NEWP_MORE[len(base_params)]:
        try:
            a = g.replace_params(newp)
        except NotImplementedError:
            a = None
        b = mk_gate({**case["base"], "p": list(newp)})
        for m in case["chain"]:
            b = apply(b, m)
        k += 1
        if a is None or not (a == b) or tuple(a.params) != tuple(newp) or any(type(x) is not type(y) for x, y in zip(a.params, newp)):
            return {"ok": False, "msg": "replace_params(%s) on the modified gate differs from modifying the gate built with the new parameters (chain %s)" % (newp, case["chain"]),
                    "expected": str(b), "observed": str(a), "sig": "replace_params", "ops": k}
        if M is not None and not any(trans(m) for m in case["chain"]):
            if not _close(num(a.matrix), num(b.matrix), atol=ATOL):
                return {"ok": False, "msg": "replace_params(%s): matrices differ" % (newp,), "sig": "replace_params:matrix", "ops": k}
    if pending:
        return {**pending, "ops": k}
    return {"ok": True, "nt": bool(case["chain"]) and changed, "ops": max(k, 1), "out": "len%d%s" % (len(case["chain"]), ":T" if any(trans(m) for m in case["chain"]) else "")}


def cutoff_case(case):
    """{'gate': name, 'chain': [algebraic mods]}: one-parameter base with symbolic parameter; every step on the certificate grid => all real parameters"""
    from orquestra.quantum import circuits as C
    t = sympy.Symbol("theta", real=True)
    name = case["gate"]
    pts0 = None
    g0 = getattr(C, name)(t)
    deg = cutoff.matrix_degree(g0.matrix, [t])
    D = deg[t] if deg else 2
    # integer powers multiply the degree; the residual of a step has at most twice the degree of the modified matrix
    mult = 1
    for m in case["chain"]:
        if m[0] == "power":
            mult *= max(abs(m[1]), 1)
    pts = cutoff.grid_points(2 * (2 * D * mult) + 1)
    # exact special angles are enumerated too: a branch on an exact value is invisible to the polynomial argument
    pts = list(pts) + [0.0, np.pi / 2, np.pi, -np.pi, 2 * np.pi, 3 * np.pi, 4 * np.pi]
    k = 0
    for x in pts:
        g = getattr(C, name)(float(x))
        M = num(g.matrix)
        for i, m in enumerate(case["chain"]):
            g = apply(g, m)
            obs = num(g.matrix)
            k += 1
            ok, what = expected_ok(M, m, obs)
            if not ok:
                return {"ok": False, "msg": "%s(%.4f) chain %s step %d: matrix is not the %s" % (name, x, case["chain"], i, what), "sig": "step:" + m[0], "ops": k}
            M = obs
    return {"ok": True, "nt": True, "ops": k, "out": "certified" if deg else "grid-only", "extra": {"certified": int(bool(deg)), "grid": len(pts)}}


FUNCS = {"exponent_kinds": chain_case, "name_borrowing_customs": chain_case, "defective_customs": chain_case, "root_then_power": chain_case, "unit_fractions": chain_case, "special_bases": chain_case, "exact_parameters": chain_case, "chains": chain_case, "termination": chain_case, "transcendental_pairs": chain_case, "cutoff": cutoff_case}


def chains(depth, max_trans=1):
    mods = ALG + TRANS
    out = [[]]
    for d in range(1, depth + 1):
        for combo in itertools.product(mods, repeat=d):
            if sum(1 for m in combo if trans(m)) <= max_trans:
                out.append([list(m) for m in combo])
    return out


def run(run):
    thorough = run.tier == "thorough"
    depth = 3 if thorough else 2
    cases = [{"base": b, "chain": c, "maxq": 5 if depth == 2 or len(c) <= 2 else 4} for b in BASES for c in chains(depth)]
    secs = [Section("chains", cases, chain_case, horizon=300, chunk=8, desc="all modifier chains of depth <= %d with at most one transcendental modifier over %d bases" % (depth, len(BASES)))]
    # transcendental on transcendental: the representative chains of D18/D19 in quick, all 180 depth-2 pairs in thorough
    if thorough:
        tp = [{"base": b, "chain": [list(a), list(c)], "maxq": 2} for b in BASES for a in TRANS for c in TRANS]
    else:
        tp = [{"base": G("ISWAP"), "chain": [["power", "1/3"], ["power", "1/2"]]}, {"base": G("X"), "chain": [["exp"], ["power", "1/2"]]}, {"base": G("X"), "chain": [["exp"], ["exp"]]},
              {"base": G("CNOT"), "chain": [["exp"], ["exp"]]}, {"base": G("SWAP"), "chain": [["exp"], ["power", "1/2"]]}, {"base": G("T"), "chain": [["exp"]]},
              {"base": G("Z"), "chain": [["power", "1/2"], ["power", "1/2"]]}, {"base": G("S"), "chain": [["power", "1/2"], ["exp"]]},
              # representatives of D32 (a negative integer power over a root, zero pivot) and their healthy neighbours
              {"base": G("custom2p", 0.3, 0.7), "chain": [["power", "1/2"], ["power", "1/2"]], "maxq": 2}, {"base": G("custom2p", 0.3, 0.7), "chain": [["power", "1/2"], ["exp"]], "maxq": 2},
              {"base": G("ISWAP"), "chain": [["power", "1/2"], ["power", 2], ["power", -1]], "maxq": 4}, {"base": G("ISWAP"), "chain": [["power", "1/3"], ["power", 3], ["power", -1]], "maxq": 4},
              {"base": G("SWAP"), "chain": [["power", "1/2"], ["power", 2], ["power", -1]], "maxq": 4}, {"base": G("X"), "chain": [["power", "1/2"], ["power", 2], ["power", -1]], "maxq": 4},
              {"base": G("ISWAP"), "chain": [["power", "1/2"], ["power", -1]], "maxq": 4}, {"base": G("ISWAP"), "chain": [["power", "1/2"], ["power", 2], ["power", -2]], "maxq": 4}]
    # at most one power modifier per chain here: integer powers of powers of exact expressions only blow up sympy's inversion (U3(0.3,0.3,pi/3).power(3).power(-1) > 300 s)
    ecases = [{"base": b, "chain": c, "maxq": 4} for b in EXACT_BASES for c in chains(2, max_trans=0) if sum(1 for m in c if m[0] == "power") <= 1]
    secs.append(Section("exact_parameters", ecases, chain_case, horizon=300, chunk=8, desc="all algebraic modifier chains (at most one power) of depth <= 2 over %d bases with exact sympy parameters (pi/3, ...) / root-of-unity entries" % len(EXACT_BASES)))
    scases = [{"base": b, "chain": c, "maxq": 4} for b in SPECIAL_BASES for c in chains(2, max_trans=0)]
    secs.append(Section("special_bases", scases, chain_case, horizon=300, chunk=8, desc="all algebraic chains of depth <= 2 over %d bases at special parameter points (identity / Hermitian matrices), then replace_params" % len(SPECIAL_BASES)))
    # unit fractions 1/q for many q (small, prime, powers of two, around 100 and 1000): "a matrix whose q-th power is the original"
    qs = (2, 3, 4, 5, 7, 10, 16, 64, 99, 100, 101, 128, 360, 1000, 1024) if thorough else (4, 5, 7, 16, 100, 101, 128, 1024)
    uf = [{"base": b, "chain": [["power", "1/%d" % q]], "maxq": 2} for b in (G("X"), G("T"), G("S"), G("H"), G("RX", 0.3), G("PHASE", 2.5), G("SWAP"), G("ISWAP"), G("custom1"), G("XX", 0.3)) for q in qs]
    uf += [{"base": b, "chain": [["power", "1/%d" % q], ["controlled", 1]], "maxq": 3} for b in (G("T"), G("RX", 0.3)) for q in (5, 128)]
    secs.append(Section("unit_fractions", uf, chain_case, horizon=300, chunk=2, desc="power(1/q) for q in %s over 10 bases: the q-th power of the returned matrix is the original" % (list(qs),)))
    # an integer power ON TOP of a root: (G^(1/q))^p is the p-fold product of the root - for every q up to 130 (thorough 260) and p in {q - 1, q, 2q, 3}
    rq = list(range(2, 131)) if not thorough else list(range(2, 261))
    rp_ = [{"base": b, "chain": [["power", "1/%d" % q], ["power", p]], "maxq": 2} for b in (G("RX", 0.3), G("T"), G("X"), G("SWAP")) for q in rq for p in sorted({q - 1, q, 2 * q, 3})
           if not (b.get("g") == "SWAP" and q % 3 != 1)]
    rp_ += [{"base": G("custom1"), "chain": [["power", "1/%d" % q], ["power", p]], "maxq": 2} for q, p in ((2, 2), (3, 3), (3, 6), (5, 4), (7, 7))]     # dense complex entries: sympy's powers of these grow quickly
    secs.append(Section("root_then_power", rp_, chain_case, horizon=300, chunk=16, desc="power(1/q).power(p) for every q in 2..%d, p in {3, q-1, q, 2q} over 4 bases (+ a dense custom gate for small q): the p-fold product of the returned root" % rq[-1]))
    dch = [[["exp"]], [["exp"], ["exp"]], [["exp"], ["dagger"], ["exp"]], [["exp"], ["power", 2], ["exp"]], [["dagger"], ["exp"], ["exp"]], [["exp"], ["controlled", 1]], [["controlled", 1], ["exp"]],
           [["power", 2]], [["power", 3], ["dagger"]], [["dagger"], ["power", 2]], [["exp"], ["power", -1]], [["exp"], ["exp"], ["dagger"]]]
    ek = [{"base": b, "chain": ch, "maxq": 2} for b in (G("T"), G("X"), G("RX", 0.3), G("SWAP"), G("custom1")) for q in (2, 3, 5) for kd in "RFS"
          for ch in ([["power", "%s1/%d" % (kd, q)]], [["power", "%s1/%d" % (kd, q)], ["power", q]], [["dagger"], ["power", "%s1/%d" % (kd, q)]], [["power", "%s1/%d" % (kd, q)], ["controlled", 1]])
          if not (b.get("g") in ("SWAP",) and ch[-1][0] == "controlled")]
    secs.append(Section("exponent_kinds", ek, chain_case, horizon=300, chunk=4, desc="unit-fraction exponents given as sympy.Rational / fractions.Fraction / sympy.Float (q = 2, 3, 5) over 5 bases: still a q-th root"))
    nb = [{"base": G(b), "chain": c, "maxq": 4} for b in ("custom:RY", "custom:RZ", "custom:XX", "custom:U3") for c in chains(2, max_trans=0)]
    secs.append(Section("name_borrowing_customs", nb, chain_case, horizon=300, chunk=8, desc="custom definitions that carry the NAME of a built-in gate family (RY, RZ, XX, U3) but other matrices: every algebraic chain of depth <= 2 is judged by their own matrix"))
    secs.append(Section("defective_customs", [{"base": G(b), "chain": c, "maxq": 2} for b in ("customnil", "customjordan", "customjordanc", "customcascade") for c in dch if not (b == "customcascade" and ["controlled", 1] in c)], chain_case, horizon=300, chunk=2,
                        desc="modifier chains with nested exponentials over custom definitions whose matrices are not diagonalisable (nilpotent / Jordan blocks): the matrix functions are still the definitions"))
    secs.append(Section("transcendental_pairs", tp, chain_case, horizon=300, chunk=1, desc="transcendental modifier applied on top of a transcendental one"))
    term = [{"base": G("T"), "chain": c, "maxq": 2} for c in ([["exp"]], [["dagger"], ["exp"]], [["power", 2], ["exp"]], [["power", "1/2"]], [["power", "1/3"]])] + \
           [{"base": G("S"), "chain": [["exp"]], "maxq": 2}, {"base": G("PHASE", 2.5), "chain": [["exp"]], "maxq": 2}]
    secs.append(Section("termination", term, chain_case, horizon=180, chunk=1, horizon_is_violation=True,
                        desc="transcendental modifiers over the phase gates whose float phases once made sympy loop forever (D17): a matrix must come back at all"))
    cc = [{"gate": n, "chain": c} for n in ("RX", "RY", "RZ", "PHASE", "CPHASE", "XX", "XY", "GPi", "GPi2")
          for c in ([["dagger"]], [["controlled", 1]], [["power", 2]], [["power", -1]], [["dagger"], ["controlled", 1]], [["controlled", 1], ["dagger"]], [["power", 2], ["dagger"]],
                    [["dagger"], ["power", 3]], [["controlled", 1], ["power", -1]], [["power", 0]], [["dagger"], ["dagger"]])]
    secs.append(Section("cutoff", cc, cutoff_case, horizon=300, desc="algebraic chains over one-parameter gates on the certificate grid (all real parameters)"))
    run.run_sections(secs)
