"""C01 - a circuit acts as the ordered product of its gates on the named qubits (E1 + E3 over native labelings)."""
import itertools
from functools import lru_cache

import numpy as np
from mc.ref.linalg import allclose as _close

from mc.engine import Section, jdump
from mc.gates import G, W, arity, gate_num, mk_circuit, mk_gate, mk_op, num
from mc.ref import linalg as L

RULE = ("single operations: every gate of the alphabet x every register width x every ORDERED tuple of distinct qubit indices; "
        "sequences: every circuit of length <= L over a 3-qubit operation alphabet; concatenation: every ordered pair of pool "
        "circuits; simulators: every circuit of length <= L x every native/non-native labeling (2^L) x initial states; additionally every single operation of the "
        "gate alphabet (incl. parametric gates at the exact values 0, pi, 2pi and asymmetric diagonal gates) x width x ordered tuple, and every sequence of the "
        "sequence alphabet, through SymbolicSimulator and the base-class simulator with everything / nothing native. "
        "non-trivial = reference unitary differs from identity and (single ops) index tuple is not (0..k-1) on k qubits, "
        "(sequences) ops do not all commute trivially i.e. length >= 2; distinct = canonical case json")
RULE += ' Round 7: answers of one simulator held until the history ends; roots of self-adjoint gates in the sequence alphabet; basis states carrying a phase as initial states.'
RULE += ' Round 6: circuits of 63-257 operations (at once / concatenated halves); MultiPhaseOperations with uniform, zero, pi and two-valued angle tuples alone and between gates.'
RULE += ' Round 5: registers of 7-10 qubits (asymmetric 2-/3-qubit gates on far-apart, descending and adjacent tuples through apply / lifted_matrix / to_unitary / the bundled simulator); one simulator object answering every history of 2 calls over 6 circuits x 3 initial states.'
ASSUMPTIONS = ["numpy dense arithmetic is correct", "the gate's own numeric matrix (gate.matrix) is taken as given (C02/C07 decide it)",
               "qubit 0 = most significant bit; first listed qubit = most significant bit of the gate's own index"]
BOUNDS = {"quick": {"single_ops_max_width": 4, "sequence_len": 2, "sim_len": 3, "sim_qubits": [2, 3]},
          "thorough": {"single_ops_max_width": 5, "sequence_len": 3, "sim_len": 4, "sim_qubits": [2, 3]}}
ATOL = 1e-9
SUBS = {"theta": 0.3, "phi": -1.1, "lam": 2.5}


def _subs():
    import sympy
    return {sympy.Symbol(k): v for k, v in SUBS.items()}


@lru_cache(maxsize=None)
def _gate_matrix(gj):
    import json
    return gate_num(mk_gate(json.loads(gj)), _subs())


@lru_cache(maxsize=None)
def _embedded(gj, q, n):
    return L.embed(_gate_matrix(gj), q, n)


def ref_op_matrix(od, n):
    if "mp" in od:
        return np.diag(np.exp(1j * np.array([float(x) for x in od["mp"]])))
    return _embedded(jdump(od["gate"]), tuple(od["q"]), n)


def ref_unitary(ops, n):
    U = np.eye(2 ** n, dtype=complex)
    for od in ops:
        U = ref_op_matrix(od, n) @ U
    return U


def dense_vec(n, salt=0):
    v = np.array([np.sin(1 + 2.0 * i + salt) + 1j * np.cos(0.5 + 3.0 * i * i + salt) for i in range(2 ** n)])
    return v / np.linalg.norm(v)


def fail(msg, exp, obs, sig):
    return {"ok": False, "msg": msg, "expected": str(np.round(np.asarray(exp), 5).tolist())[:500],
            "observed": str(np.round(np.asarray(obs), 5).tolist())[:500] if not isinstance(obs, str) else obs, "sig": sig}


def single_op(case):
    """{'gate':G,'q':[..],'n':n}: to_unitary / lifted_matrix / apply against ref.embed of the gate's own matrix"""
    from orquestra.quantum import circuits as C
    n, q = case["n"], tuple(case["q"])
    op = mk_gate(case["gate"])(*q)
    exp = _embedded(jdump(case["gate"]), q, n)
    symbolic = bool(op.free_symbols)
    U = num(C.Circuit([op], n_qubits=n).to_unitary(), _subs() if symbolic else None)
    nt = (not _close(exp, np.eye(2 ** n))) and q != tuple(range(n))
    r = {"ok": True, "nt": nt, "ops": 3, "out": "sym" if symbolic else "num"}
    if U.shape != exp.shape or not _close(U, exp, atol=ATOL):
        return {**r, **fail("Circuit([g(*q)], n).to_unitary() is not the gate embedded on q", exp, U, "single:to_unitary")}
    Lm = num(op.lifted_matrix(n), _subs() if symbolic else None)
    if not _close(Lm, exp, atol=ATOL):
        return {**r, **fail("lifted_matrix(n) is not the gate embedded on q", exp, Lm, "single:lifted")}
    if not symbolic:
        vs = [dense_vec(n)] + [np.eye(2 ** n)[i] for i in {0, 2 ** n - 1, (2 ** n) // 3}]
        for v in vs:
            got = np.asarray(op.apply(v), dtype=complex).reshape(-1)
            if not _close(got, exp @ v, atol=ATOL):
                return {**r, **fail("apply(v) != embedded matrix @ v", exp @ v, got, "single:apply")}
        # "any state vector": the same basis state handed over as an integer array, a float32 / complex64 array, a Python list and a tuple
        e_ = np.zeros(2 ** n, dtype=int)
        e_[(2 ** n) // 3] = 1
        for kind, v in (("int array", e_.copy()), ("float32 array", e_.astype(np.float32)), ("complex64 array", e_.astype(np.complex64)), ("list", [int(x) for x in e_]),
                        ("float list", [float(x) for x in e_]), ("tuple", tuple(int(x) for x in e_))):
            got = np.asarray(op.apply(v), dtype=complex).reshape(-1)
            r["ops"] += 1
            if got.shape != (2 ** n,) or not _close(got, exp @ e_, atol=1e-6 if "32" in kind or "64 a" in kind else ATOL):
                return {**r, **fail("apply(v) != embedded matrix @ v for v given as %s" % kind, exp @ e_, got, "single:apply-kind")}
            if isinstance(v, np.ndarray) and not np.array_equal(v, e_):
                return {**r, **fail("apply modified the %s it was given" % kind, e_, v, "single:apply-mutated")}
    return r


def sequence(case):
    """{'ops':[...], 'n':n}: to_unitary = reference product (first op right-most); op-by-op application to states"""
    n = case["n"]
    c = mk_circuit(case)
    exp = ref_unitary(case["ops"], n)
    if c.n_qubits != n:
        return {"ok": False, "msg": "register width", "expected": n, "observed": c.n_qubits, "sig": "seq:width"}
    U = num(c.to_unitary())
    nt = len(case["ops"]) >= 2 and not _close(exp, np.eye(2 ** n))
    r = {"ok": True, "nt": nt, "ops": 1 + len(case["ops"]), "out": "len%d" % len(case["ops"])}
    if U.shape != exp.shape or not _close(U, exp, atol=ATOL):
        return {**r, **fail("to_unitary() differs from the ordered product of embedded gate matrices", exp, U, "seq:to_unitary")}
    for v in (dense_vec(n), np.eye(2 ** n)[1], np.eye(2 ** n)[2 ** n - 2]):
        s = v
        for op in c.operations:
            s = op.apply(s)
        if not _close(np.asarray(s, dtype=complex).reshape(-1), exp @ v, atol=ATOL):
            return {**r, **fail("applying the operations one at a time differs from the circuit matrix", exp @ v, s, "seq:apply")}
    return r


def long_sequence(case):
    """{'ops': [...], 'n': n, 'split': k?}: a long circuit (built at once, or as the concatenation of two halves): to_unitary = ordered product, op-by-op application, simulator"""
    from orquestra.quantum.runners.symbolic_simulator import SymbolicSimulator
    n = case["n"]
    if case.get("split"):
        k_ = case["split"]
        c = mk_circuit({"ops": case["ops"][:k_], "n": n}) + mk_circuit({"ops": case["ops"][k_:], "n": n})
    else:
        c = mk_circuit(case)
    exp = ref_unitary(case["ops"], n)
    if len(c.operations) != len(case["ops"]) or c.n_qubits != n:
        return {"ok": False, "msg": "long circuit: number of operations / width changed", "sig": "long:shape"}
    U = num(c.to_unitary())
    r = {"ok": True, "nt": True, "ops": 2 * len(case["ops"]), "out": "len%d" % len(case["ops"])}
    if U.shape != exp.shape or not _close(U, exp, atol=1e-8):
        return {**r, **fail("to_unitary() of a circuit of %d operations differs from the ordered product of embedded gate matrices" % len(case["ops"]), exp, U, "long:to_unitary")}
    v = dense_vec(n)
    s_ = v
    for op in c.operations:
        s_ = op.apply(s_)
    if not _close(np.asarray(s_, dtype=complex).reshape(-1), exp @ v, atol=1e-8):
        return {**r, **fail("applying the operations one at a time differs from the circuit matrix", exp @ v, s_, "long:apply")}
    got = np.asarray(SymbolicSimulator().get_wavefunction(c).amplitudes, dtype=complex).reshape(-1)
    if not _close(got, exp[:, 0], atol=1e-8):
        return {**r, **fail("SymbolicSimulator state of a long circuit differs from the circuit matrix applied to |0..0>", exp[:, 0], got, "long:sim")}
    return r


def pad(U, n_from, n_to):
    """U on the first n_from qubits of an n_to register (identity on the added, higher-index qubits)"""
    return np.kron(U, np.eye(2 ** (n_to - n_from))) if n_to > n_from else U


def concat(case):
    """{'a':circ,'b':circ}: (a+b) width = max, U(a+b) = pad(U(b)) pad(U(a)); a + op likewise"""
    a, b = mk_circuit(case["a"]), mk_circuit(case["b"])
    na, nb = a.n_qubits, b.n_qubits
    s = a + b
    n = max(na, nb)
    if s.n_qubits != n:
        return {"ok": False, "msg": "width of a+b is not the larger width", "expected": n, "observed": s.n_qubits, "sig": "concat:width"}
    exp = pad(ref_unitary(case["b"]["ops"], nb), nb, n) @ pad(ref_unitary(case["a"]["ops"], na), na, n)
    U = num(s.to_unitary())
    r = {"ok": True, "nt": na != nb and bool(case["a"]["ops"]) and bool(case["b"]["ops"]), "ops": 2, "out": "%d+%d" % (na, nb)}
    if U.shape != exp.shape or not _close(U, exp, atol=ATOL):
        return {**r, **fail("U(a+b) != U(b) U(a) on the wider register", exp, U, "concat:unitary")}
    if len(s.operations) != len(a.operations) + len(b.operations) or a.n_qubits != na or b.n_qubits != nb:
        return {**r, "ok": False, "msg": "operation count / operands changed", "sig": "concat:ops"}
    # a + single operation
    if case["b"]["ops"]:
        od = case["b"]["ops"][0]
        t = a + mk_op(od)
        nn = max(na, max(od["q"]) + 1)
        if t.n_qubits != nn:
            return {**r, "ok": False, "msg": "width of circuit + operation", "expected": nn, "observed": t.n_qubits, "sig": "concat:opwidth"}
        exp2 = ref_unitary([od], nn) @ pad(ref_unitary(case["a"]["ops"], na), na, nn)
        if not _close(num(t.to_unitary()), exp2, atol=ATOL):
            return {**r, **fail("U(a + op) != U(op) U(a)", exp2, num(t.to_unitary()), "concat:opunitary")}
    return r


def _scripted_sim(labels_by_id, log):
    from orquestra.quantum.api.wavefunction_simulator import BaseWavefunctionSimulator
    from orquestra.quantum.circuits import GateOperation

    class ScriptedSim(BaseWavefunctionSimulator):
        def is_natively_supported(self, operation):
            return labels_by_id[id(operation)]

        def _get_wavefunction_from_native_circuit(self, circuit, initial_state):
            log.append((circuit.n_qubits, [id(o) for o in circuit.operations]))
            s = np.asarray(initial_state, dtype=complex)
            n = circuit.n_qubits
            for o in circuit.operations:
                if isinstance(o, GateOperation):
                    s = L.embed(num(o.gate.matrix), tuple(o.qubit_indices), n) @ s
                else:
                    s = np.exp(1j * np.array([float(p) for p in o.params])) * s
            return s
    return ScriptedSim()


def inits(n):
    out = [("none", None)]
    for i in sorted({0, 1, 2 ** n - 1}):
        out.append(("e%d" % i, np.eye(2 ** n)[i].astype(complex)))
    out.append(("dense", dense_vec(n, 1)))
    # basis states that carry a phase (one non-zero entry of modulus 1 that is not 1)
    out.append(("i*e1", 1j * np.eye(2 ** n)[1].astype(complex)))
    out.append(("phase*e_last", np.exp(0.3j) * np.eye(2 ** n)[2 ** n - 1].astype(complex)))
    return out


def simulate(case):
    """{'ops':[...],'n':n,'labels':[bool..]|None}: get_wavefunction for every initial state = reference matrix @ init.
    labels None -> SymbolicSimulator; otherwise the scripted-predicate BaseWavefunctionSimulator subclass."""
    from orquestra.quantum.runners.symbolic_simulator import SymbolicSimulator
    n = case["n"]
    c = mk_circuit(case)
    exp = ref_unitary(case["ops"], n)
    labels = case.get("labels")
    ops_run = 0
    for nm, init in inits(n):
        log = []
        if labels is None:
            sim = SymbolicSimulator()
        else:
            sim = _scripted_sim({id(o): bool(l) for o, l in zip(c.operations, labels)}, log)
        j0, c0 = sim.n_jobs_executed, sim.n_circuits_executed
        wf = sim.get_wavefunction(c) if init is None else sim.get_wavefunction(c, init.copy())
        ops_run += 1
        v0 = np.eye(2 ** n)[0] if init is None else init
        got = np.asarray(wf.amplitudes, dtype=complex).reshape(-1)
        if not _close(got, exp @ v0, atol=ATOL):
            return {**fail("simulator state != circuit matrix @ initial state (init=%s)" % nm, exp @ v0, got, "sim:state"), "ops": ops_run}
        if labels is not None:
            # maximal runs, in order, full width; only native runs reach the native method
            runs = [(k, [id(o) for o in g]) for k, g in itertools.groupby(c.operations, key=lambda o: bool(labels[[id(x) for x in c.operations].index(id(o))]))]
            nat = [ids for k, ids in runs if k]
            if [ids for _, ids in log] != nat or any(w != n for w, _ in log):
                return {"ok": False, "msg": "native sub-circuits are not the maximal native runs at full width", "expected": str(nat),
                        "observed": str(log), "sig": "sim:segments", "ops": ops_run}
            if (sim.n_jobs_executed - j0, sim.n_circuits_executed - c0) != (len(runs), len(nat)):
                return {"ok": False, "msg": "job/circuit counters do not match the segments run", "expected": [len(runs), len(nat)],
                        "observed": [sim.n_jobs_executed - j0, sim.n_circuits_executed - c0], "sig": "sim:counters", "ops": ops_run}
    nseg = 0 if labels is None else len(list(itertools.groupby(labels)))
    return {"ok": True, "nt": len(case["ops"]) >= 2 and not _close(exp, np.eye(2 ** n)), "ops": ops_run,
            "out": "symbolic" if labels is None else "segments%d" % nseg}


def wide_case(case):
    """{'gate':G,'q':[..],'n':n}: registers of 7..11 qubits, where an index shift no longer fits a small integer type and a qubit distance exceeds anything the
    small registers contain: lifted_matrix, to_unitary (n <= 10), apply and SymbolicSimulator against the bit-arithmetic embedding"""
    from orquestra.quantum import circuits as C
    from orquestra.quantum.runners.symbolic_simulator import SymbolicSimulator
    n, q = case["n"], tuple(case["q"])
    op = mk_gate(case["gate"])(*q)
    exp = L.embed(_gate_matrix(jdump(case["gate"])), q, n)
    r = {"ok": True, "nt": True, "ops": 0, "out": "n%d" % n}
    vs = [dense_vec(n)] + [np.eye(2 ** n)[i] for i in sorted({0, 2 ** n - 1, (2 ** n) // 3, 1 << (n - 1 - q[0]), (1 << (n - 1 - q[-1])) | 1})]
    for v in (vs if n <= 9 else vs[:3]):
        r["ops"] += 1
        got = np.asarray(op.apply(v), dtype=complex).reshape(-1)
        if got.shape != v.shape or not _close(got, exp @ v, atol=ATOL):
            return {**r, **fail("apply(v) != embedded matrix @ v on %d qubits" % n, (exp @ v)[:16], got[:16], "wide:apply")}
    if n <= 10:
        Lm = num(op.lifted_matrix(n))
        r["ops"] += 1
        if Lm.shape != exp.shape or not _close(Lm, exp, atol=ATOL):
            return {**r, **fail("lifted_matrix(%d) is not the gate embedded on q" % n, exp[:4, :4], Lm[:4, :4], "wide:lifted")}
        partner = C.T(q[0]) if case.get("partner") == "T" else C.X(n - 1 - q[0] if n - 1 - q[0] not in q else q[-1])
        c = C.Circuit([partner, op], n_qubits=n)
        U = num(c.to_unitary())
        r["ops"] += 1
        expU = exp @ L.embed(num(partner.gate.matrix), tuple(partner.qubit_indices), n)
        if U.shape != expU.shape or not _close(U, expU, atol=ATOL):
            return {**r, **fail("to_unitary() on %d qubits differs from the ordered product of embedded gate matrices" % n, expU[:4, :4], U[:4, :4], "wide:to_unitary")}
        wf = SymbolicSimulator().get_wavefunction(c)
        got = np.asarray(wf.amplitudes, dtype=complex).reshape(-1)
        r["ops"] += 1
        if not _close(got, expU[:, 0], atol=ATOL):
            return {**r, **fail("SymbolicSimulator state on %d qubits != circuit matrix @ |0..0>" % n, expU[:16, 0], got[:16], "wide:sim")}
    return r


def sim_history(case):
    """{'kind': 'symbolic'|'native'|'nonnative'|'mixed', 'calls': [[circuit index, init name], ...]}: ONE simulator object answers a history of
    get_wavefunction calls (same circuit with different initial states, equal but distinct circuit objects, different circuits of one width):
    every answer is the reference matrix of the circuit asked for, applied to the initial state asked for"""
    from orquestra.quantum.runners.symbolic_simulator import SymbolicSimulator
    n = case["n"]
    pool = history_pool(n)
    built = {}
    labels_by_id, log = {}, []
    sim = SymbolicSimulator() if case["kind"] == "symbolic" else _scripted_sim(labels_by_id, log)
    init_by_name = dict(inits(n))
    k = 0
    held = []      # every answer is kept until the history ends: a later call must not reach back into an answer already handed out
    for ci, init_name in case["calls"]:
        desc = pool[ci]
        c = built.get(ci) if case.get("reuse_objects", True) else None
        if c is None:
            c = mk_circuit(desc)
            built[ci] = c
            for j, o in enumerate(c.operations):
                labels_by_id[id(o)] = {"native": True, "nonnative": False, "mixed": j % 2 == 0}.get(case["kind"], True)
        init = init_by_name[init_name]
        exp = ref_unitary(desc["ops"], n)
        wf = sim.get_wavefunction(c) if init is None else sim.get_wavefunction(c, init.copy())
        k += 1
        v0 = np.eye(2 ** n)[0] if init is None else init
        got = np.asarray(wf.amplitudes, dtype=complex).reshape(-1)
        if not _close(got, exp @ v0, atol=ATOL):
            return {**fail("call %d of the history on one simulator object: state != matrix of the circuit asked for @ the initial state asked for (init=%s)" % (k, init_name),
                           exp @ v0, got, "sim:history"), "ops": k}
        held.append((k, wf, exp @ v0))
    for k0, wf0, want in held:
        now = np.asarray(wf0.amplitudes, dtype=complex).reshape(-1)
        if not _close(now, want, atol=ATOL):
            return {**fail("the wavefunction returned by call %d of a history on one simulator object changed after later calls" % k0, want, now, "sim:history-aliased"), "ops": k}
    return {"ok": True, "nt": len(case["calls"]) >= 2, "ops": k, "out": case["kind"]}


def history_pool(n):
    S = sim_ops(n)
    return [{"ops": [S[1], S[0]], "n": n}, {"ops": [S[1], S[0]], "n": n}, {"ops": [S[0], S[1]], "n": n}, {"ops": [S[3], S[2]], "n": n}, {"ops": [], "n": n}, {"ops": [S[4]], "n": n}]


def construction_case(case):
    """{'kind': how the operations are handed to Circuit(...)}: the circuit is what it was built from, whatever the caller does with the container afterwards"""
    from orquestra.quantum import circuits as C
    from orquestra.quantum.runners.symbolic_simulator import SymbolicSimulator
    ops0 = [C.X(0), C.CNOT(0, 1)]
    extra = [C.H(3), C.T(0)]
    expU = L.embed(num(C.CNOT.matrix), (0, 1), 2) @ L.embed(num(C.X.matrix), (0,), 2)
    kind = case["kind"]
    src = list(ops0)
    arg = {"list": src, "tuple": tuple(src), "iterator": iter(src), "generator": (o for o in src)}[kind]
    c = C.Circuit(arg) if not case.get("n") else C.Circuit(arg, n_qubits=case["n"])
    n = case.get("n") or 2
    prefixes = [c]
    # the caller goes on using its list (collecting prefixes of a growing program, clearing it, reversing it)
    for step in case["mutations"]:
        if step == "append":
            src.append(extra[len(src) % 2])
        elif step == "clear":
            src.clear()
        elif step == "reverse":
            src.reverse()
        elif step == "replace":
            if src:
                src[0] = C.Z(1)
            else:
                src.append(C.Z(1))
        if [str(o) for o in c.operations] != [str(o) for o in ops0] or c.n_qubits != n:
            return {"ok": False, "msg": "Circuit(%s): after the caller's %s of its own container the circuit reports operations %s on %s qubits" % (kind, step, [str(o) for o in c.operations], c.n_qubits),
                    "expected": str([str(o) for o in ops0]), "sig": "construction:aliased"}
        U = num(c.to_unitary())
        exp = L.embed(expU, (0, 1), n) if n > 2 else expU
        if U.shape != exp.shape or not _close(U, exp, atol=ATOL):
            return {"ok": False, "msg": "Circuit(%s): to_unitary changed after the caller's %s of its own container" % (kind, step), "sig": "construction:aliased-unitary"}
        got = np.asarray(SymbolicSimulator().get_wavefunction(c).amplitudes, dtype=complex).reshape(-1)
        if not _close(got, exp[:, 0], atol=ATOL):
            return {"ok": False, "msg": "Circuit(%s): simulated state changed after the caller's %s of its own container" % (kind, step), "sig": "construction:aliased-sim"}
    return {"ok": True, "nt": True, "ops": 3 * len(case["mutations"]), "out": kind}


def multiphase(case):
    """{'n':n,'thetas':[...],'i':basis index}: component k is multiplied by exp(i theta_k)"""
    from orquestra.quantum.circuits import MultiPhaseOperation
    th = case["thetas"]
    op = MultiPhaseOperation(tuple(th))
    v = dense_vec(case["n"], 2) if case["i"] < 0 else np.eye(2 ** case["n"])[case["i"]].astype(complex)
    got = np.asarray(op.apply(v), dtype=complex)
    exp = np.array([np.exp(1j * t) for t in th]) * v
    r = {"ok": bool(_close(got, exp, atol=ATOL)), "nt": True, "out": "mp"}
    if not r["ok"]:
        r.update(fail("MultiPhaseOperation.apply", exp, got, "mp:apply"))
        return r
    return r


def empty_case(case):
    from orquestra.quantum import circuits as C
    n = case["n"]
    U = num(C.Circuit([], n_qubits=n).to_unitary())
    ok = U.shape == (2 ** n, 2 ** n) and _close(U, np.eye(2 ** n))
    r = {"ok": bool(ok), "nt": False, "out": "empty"}
    if not ok:
        r.update(msg="empty circuit is not the identity of its width", observed=str(U.shape), sig="empty")
    return r


FUNCS = {"construction": construction_case, "wide": wide_case, "sim_history": sim_history, "sim_single": simulate, "sim_sequences": simulate, "single_ops": single_op, "single_ops_symbolic": single_op, "sequences": sequence, "concat": concat, "simulators": simulate,
         "multiphase": multiphase, "empty": empty_case, "long_sequences": long_sequence, "sim_multiphase": simulate}

TH = 0.3


def gate_alphabet():
    b = [G("X"), G("Y"), G("Z"), G("H"), G("I"), G("S"), G("SX"), G("T"), G("RX", TH), G("RY", TH), G("RZ", TH), G("RH", TH), G("PHASE", TH),
         G("U3", 0.3, -1.1, 2.5), G("GPi", TH), G("GPi2", TH), G("Delay", 1.0), G("CNOT"), G("CZ"), G("SWAP"), G("ISWAP"), G("CPHASE", TH),
         G("XX", TH), G("YY", TH), G("ZZ", TH), G("XY", TH), G("MS", 0.3, -1.1), G("custom1"), G("custom2"), G("custom3"),
         W("controlled", G("X"), k=1), W("controlled", G("X"), k=2), W("controlled", G("custom2"), k=1), W("controlled", G("custom3"), k=1),
         W("controlled", G("CNOT"), k=2), W("controlled", G("RY", TH), k=3), W("dagger", G("T")), W("dagger", G("custom2")), W("power", G("T"), e=3),
         W("controlled", W("dagger", G("custom1")), k=1), G("custom2p", 0.3, 0.7),
         # asymmetric diagonal gates (a diagonal fast path must still honour the order of the index tuple)
         W("controlled", G("RZ", TH), k=1), W("controlled", G("RZ", TH), k=2), W("controlled", G("T"), k=1), W("controlled", G("ZZ", TH), k=1)]
    # exact special parameter values: a gate at angle 0 / pi / 2pi is still a gate (GPi(0) = X, MS(0,0), RX(2pi) = -I ...)
    import math
    for name, npar in (("RX", 1), ("RY", 1), ("RZ", 1), ("RH", 1), ("PHASE", 1), ("GPi", 1), ("GPi2", 1), ("CPHASE", 1), ("XX", 1), ("YY", 1),
                       ("ZZ", 1), ("XY", 1), ("MS", 2), ("U3", 3), ("custom2p", 2)):
        for v in (0, 0.0, math.pi, 2 * math.pi):
            b.append(G(name, *([v] * npar)))
    return b


def symbolic_alphabet():
    return [G("RX", "s:theta"), G("U3", "s:theta", "s:phi", "s:lam"), G("CPHASE", "s:theta"), G("MS", "s:theta", "s:phi"),
            G("custom2p", "s:theta", "s:phi"), W("controlled", G("RY", "s:theta"), k=1), W("dagger", G("XY", "s:theta")),
            W("controlled", G("custom2p", "s:phi", 0.7), k=1)]


def ops3():
    """operation alphabet on a 3-qubit register"""
    out = []
    for g in (G("T"), G("RX", TH), G("custom1")):
        out += [{"gate": g, "q": [q]} for q in range(3)]
    out += [{"gate": G("U3", 0.3, -1.1, 2.5), "q": [1]}]
    for g in (G("CNOT"), G("custom2"), G("CPHASE", TH), G("SWAP")):
        out += [{"gate": g, "q": list(p)} for p in itertools.permutations(range(3), 2)]
    for g in (W("controlled", G("X"), k=2), G("custom3")):
        out += [{"gate": g, "q": list(p)} for p in itertools.permutations(range(3), 3)]
    # roots of self-adjoint gates (their "dagger" is the same wrapper again - finding D15 - so a circuit must not reason with it), a dagger
    out += [{"gate": W("power", G("X"), e="1/2"), "q": [0]}, {"gate": W("power", G("Z"), e="1/2"), "q": [2]}, {"gate": W("controlled", W("power", G("X"), e="1/2"), k=1), "q": [1, 0]},
            {"gate": W("dagger", G("T")), "q": [0]}]
    return out


def pool_circuits():
    """small pool of circuits of widths 1..4 (explicit and implied widths, idle qubits)"""
    P = [{"ops": [], "n": 1}, {"ops": [], "n": 3},
         {"ops": [{"gate": G("T"), "q": [0]}], "n": None}, {"ops": [{"gate": G("custom1"), "q": [0]}], "n": 2},
         {"ops": [{"gate": G("CNOT"), "q": [1, 0]}], "n": None}, {"ops": [{"gate": G("custom2"), "q": [0, 2]}], "n": None},
         {"ops": [{"gate": G("RX", TH), "q": [1]}, {"gate": G("custom2"), "q": [1, 0]}], "n": 4},
         {"ops": [{"gate": G("custom3"), "q": [2, 0, 1]}, {"gate": G("T"), "q": [2]}], "n": None},
         {"ops": [{"gate": W("controlled", G("X"), k=2), "q": [3, 1, 0]}], "n": None},
         {"ops": [{"gate": G("custom1"), "q": [2]}], "n": None}, {"ops": [{"gate": G("SWAP"), "q": [0, 3]}, {"gate": G("custom1"), "q": [3]}], "n": None}]
    return P


def sim_ops(n):
    th = [0.1 + 0.37 * k for k in range(2 ** n)]
    out = [{"gate": G("T"), "q": [n - 1]}, {"gate": G("CNOT"), "q": [1, 0]}, {"gate": G("custom2"), "q": [0, n - 1]}, {"mp": th},
           {"gate": G("custom1"), "q": [0]}]
    if n >= 3:
        out.append({"gate": W("controlled", G("X"), k=2), "q": [2, 0, 1]})
    return out


def run(run):
    thorough = run.tier == "thorough"
    maxn = 5 if thorough else 4
    secs = []
    cases = []
    for g in gate_alphabet():
        k = arity(g)
        for n in range(k, max(maxn, k) + 1):
            if k >= 3 and n > 5:
                continue
            for q in itertools.permutations(range(n), k):
                cases.append({"gate": g, "q": list(q), "n": n})
    secs.append(Section("single_ops", cases, single_op, desc="every gate x width x ordered index tuple, numeric embedding path"))
    cases = []
    for g in symbolic_alphabet():
        k = arity(g)
        for n in range(k, (4 if thorough else 3) + 1):
            for q in itertools.permutations(range(n), k):
                cases.append({"gate": g, "q": list(q), "n": n})
    secs.append(Section("single_ops_symbolic", cases, single_op, desc="gates with free symbols (sympy embedding path), evaluated at fixed values"))
    A = ops3()
    Lmax = 3 if thorough else 2
    cases = []
    for ln in range(1, Lmax + 1):
        for combo in itertools.product(range(len(A)), repeat=ln):
            cases.append({"ops": [A[i] for i in combo], "n": 3})
    # idle-qubit variants: same alphabet on a 4-qubit register, length <= 2
    cases += [{"ops": [A[i] for i in combo], "n": 4} for ln in (1, 2) for combo in itertools.product(range(0, len(A), 3), repeat=ln)]
    secs.append(Section("sequences", cases, sequence, desc="all circuits of length <= %d over %d operations on 3 qubits (+ idle-qubit variants)" % (Lmax, len(A))))
    P = pool_circuits()
    secs.append(Section("concat", [{"a": a, "b": b} for a in P for b in P], concat, desc="all ordered pairs of pool circuits of widths 1..4"))
    cases = []
    SL = 4 if thorough else 3
    for n in (2, 3):
        S = sim_ops(n)
        for ln in range(0, SL + 1):
            for combo in itertools.product(range(len(S)), repeat=ln):
                ops = [S[i] for i in combo]
                cases.append({"ops": ops, "n": n, "labels": None})
                for labels in itertools.product([1, 0], repeat=ln):
                    # a MultiPhaseOperation can be declared native: the scripted native method implements it
                    cases.append({"ops": ops, "n": n, "labels": list(labels)})
    # every single operation of the gate alphabet through the simulators (bundled one; base class with everything native / nothing native)
    scases = []
    for c in secs[0].cases:
        if c["n"] <= 4:
            for labels in (None, [1], [0]):
                scases.append({"ops": [{"gate": c["gate"], "q": c["q"]}], "n": c["n"], "labels": labels})
    secs.append(Section("sim_single", scases, simulate, desc="every gate x width x ordered index tuple through SymbolicSimulator and the base-class simulator (all native / none native)"))
    # every sequence of the sequence alphabet through the bundled simulator and the base class with nothing native
    qcases = [{"ops": [A[i] for i in combo], "n": 3, "labels": lab} for ln in (1, 2) for combo in itertools.product(range(len(A)), repeat=ln) for lab in (None, [0] * ln)]
    if thorough:
        qcases += [{"ops": [A[i] for i in combo], "n": 3, "labels": None} for combo in itertools.product(range(0, len(A), 2), repeat=3)]
    secs.append(Section("sim_sequences", qcases, simulate, desc="all circuits of length <= 2 over the sequence alphabet through SymbolicSimulator / base-class simulator"))
    secs.append(Section("simulators", cases, simulate, desc="every circuit of length <= %d x every native/non-native labeling x 5 initial states" % SL))
    cases = [{"n": n, "thetas": [0.1 + 0.37 * k * (1 if s == 0 else -1.3) for k in range(2 ** n)], "i": i} for n in (1, 2, 3) for s in (0, 1)
             for i in list(range(2 ** n)) + [-1]]
    # one simulator object, every history of 2 (thorough: 3) calls over 6 circuits x 3 initial states
    hcases = []
    for kind in ("symbolic", "native", "nonnative", "mixed"):
        calls = [[ci, nm] for ci in range(6) for nm in ("none", "e1", "dense")]
        for ln in ((2, 3) if thorough else (2,)):
            for combo in itertools.product(range(len(calls)) if ln == 2 else range(0, len(calls), 2), repeat=ln):
                hcases.append({"kind": kind, "n": 2, "calls": [calls[i] for i in combo]})
        hcases += [{"kind": kind, "n": 2, "calls": [[0, a], [0, b]], "reuse_objects": False} for a in ("none", "e1", "dense") for b in ("none", "e1", "dense")]
    secs.append(Section("sim_history", hcases, sim_history, desc="one simulator object (bundled; base class all native / none native / alternating): every history of 2 calls over "
                        "6 circuits (two of them equal) x 3 initial states - each answer belongs to the circuit and initial state asked for"))
    # wide registers: index distances and shifts that no small register contains
    wcases = []
    asym2 = [G("CNOT"), G("custom2"), W("controlled", G("RZ", TH), k=1)]
    for n in ((7, 9, 10) if not thorough else (7, 8, 9, 10, 11)):
        pairs = [(0, n - 1), (n - 1, 0), (1, n - 2), (n - 1, n - 2), (0, 1), (n - 2, 0), (n // 2, 0), (n - 1, n // 2)]
        for g in asym2:
            wcases += [{"gate": g, "q": list(p), "n": n} for p in pairs]
        wcases += [{"gate": G("custom1"), "q": [q], "n": n, "partner": "T"} for q in (0, n // 2, n - 1)]
        for p in ((0, n // 2, n - 1), (n - 1, 0, n // 2), (n // 2, n - 1, 0), (n - 1, n - 2, 0)):
            wcases.append({"gate": G("custom3"), "q": list(p), "n": n})
            wcases.append({"gate": W("controlled", G("X"), k=2), "q": list(p), "n": n})
    secs.append(Section("wide", wcases, wide_case, chunk=2, desc="registers of 7-10 (thorough 11) qubits: asymmetric 2- and 3-qubit gates on far-apart, descending and adjacent index tuples through apply / "
                        "lifted_matrix / to_unitary / SymbolicSimulator (matrices up to 10 qubits)"))
    # uniform angle tuples (a "global phase" that is still a phase), all-zero, two-valued, multiples of 2*pi
    for n in (1, 2, 3):
        for th in ([0.9] * 2 ** n, [0.0] * 2 ** n, [2 * np.pi] * 2 ** n, [np.pi] * 2 ** n, [0.9, -0.4] * 2 ** (n - 1), [0.0] * (2 ** n - 1) + [1.3], [-2.2] + [0.0] * (2 ** n - 1)):
            cases += [{"n": n, "thetas": th, "i": i} for i in list(range(2 ** n)) + [-1]]
    mpc = []
    for n in (1, 2):
        for th in ([0.9] * 2 ** n, [0.0] * 2 ** n, [np.pi] * 2 ** n, [0.9, -0.4] * 2 ** (n - 1), [0.1 + 0.37 * k for k in range(2 ** n)]):
            m_ = {"mp": th}
            t_, h_ = {"gate": G("custom1"), "q": [0]}, {"gate": G("H"), "q": [n - 1]}
            for ops in ([m_], [h_, m_], [m_, h_], [h_, m_, h_], [m_, m_], [t_, m_, h_, m_], [h_, m_, m_, t_]):
                mpc.append({"ops": ops, "n": n, "labels": None})
                mpc += [{"ops": ops, "n": n, "labels": list(lb)} for lb in itertools.product([1, 0], repeat=len(ops))]
    secs.append(Section("sim_multiphase", mpc, simulate, desc="MultiPhaseOperations with uniform / zero / pi / two-valued / distinct angles between gates, through SymbolicSimulator and every native labeling of the base class"))
    # long circuits: a periodic clean-up, a fused run or a chunked product would show from some length on
    lc = []
    for Ln in ((63, 64, 65, 66, 100, 127, 128, 129, 130, 200, 256, 257, 300) if thorough else (63, 64, 65, 66, 129, 257)):
        for stride, off in ((5, 0), (11, 3)):
            lc.append({"ops": [A[(off + stride * i) % len(A)] for i in range(Ln)], "n": 3})
        lc.append({"ops": [A[(7 * i) % len(A)] for i in range(Ln)], "n": 3, "split": Ln // 2})
    secs.append(Section("long_sequences", lc, long_sequence, chunk=1, desc="circuits of 63-257 (thorough 300) operations on 3 qubits, built at once and by concatenating two halves: to_unitary, one-at-a-time application, SymbolicSimulator"))
    secs.append(Section("multiphase", cases, multiphase, desc="MultiPhaseOperation.apply on every basis state"))
    secs.append(Section("construction", [{"kind": k_, "mutations": list(m_), **({"n": nn} if nn else {})} for k_ in ("list", "tuple", "iterator", "generator") for nn in (None, 3)
                                         for m_ in itertools.product(("append", "clear", "reverse", "replace"), repeat=2)], construction_case,
                        desc="Circuit(list / tuple / iterator / generator): every pair of later mutations of the caller's own container leaves operations, width, matrix and simulated state as built"))
    secs.append(Section("empty", [{"n": n} for n in (1, 2, 3, 5)], empty_case, desc="empty circuit = identity"))
    run.run_sections(secs)
