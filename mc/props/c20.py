"""C20 - value-returning operations never modify their arguments (E2: the reachable state graph must be a single state)."""
import io
import itertools
import os
import shutil
import tempfile

import numpy as np
import sympy

from mc.engine import Section, jdump
from mc.gates import custom_definition
from mc.snapshot import canon
from mc import seams

RULE = ("a shared pool of library objects and plain arguments; every operation of the menu (everything the statement lists) is one event; state = deep "
        "snapshot of every pool object through public observables. Depth 1: every event must be a self-loop of the initial state. Depth 2: every "
        "ORDERED PAIR (op1; op2): state unchanged, and op2's result equals op2's result on a freshly built pool (differential oracle from a "
        "non-initial history); op;op gives equal results. Thorough adds all triples over a core menu. non-trivial = the operation returns a non-empty result")
RULE += ' Also: operators on a one-qubit register (sparse matrix, expectation).'
RULE += ' Round 5: an unsimplified exact custom definition under a fractional power, integer shot arrays in the vectorised parity routines, an empty circuit with float / complex initial states whose norm is off by 1e-9.'
ASSUMPTIONS = ["observability = the public surface captured by mc/snapshot.py (operations, params, coefficients, bitstrings, distribution_dict items in order, amplitudes, dict/list arguments)",
               "RNG-using operations run under the scripted RNG with default answers, so results are comparable"]
BOUNDS = {"quick": {"depth": 2, "menu": "full"}, "thorough": {"depth": 3, "menu": "full at depth 2, core at depth 3"}}


def build_pool(workdir):
    from orquestra.quantum import circuits as C
    from orquestra.quantum.operators import PauliTerm, PauliSum
    from orquestra.quantum.measurements import Measurements
    from orquestra.quantum.distributions import MeasurementOutcomeDistribution
    from orquestra.quantum.wavefunction import Wavefunction
    from orquestra.quantum.decompositions import U3GateToRotation
    th, ga, a = sympy.Symbol("theta"), sympy.Symbol("gamma"), sympy.Symbol("a")
    cdef = custom_definition("custom2p")
    P = {}
    P["circ"] = C.Circuit([C.RX(th)(0), cdef(th, 0.7)(1, 0), C.X.controlled(1)(2, 0), C.T.dagger(1), C.U3(th, 0.2, ga)(2)], n_qubits=4)
    P["circ_num"] = C.Circuit([C.H(0), C.CNOT(0, 1), C.RY(0.4)(1), C.U3(0.3, 0.4, 0.5)(0)], n_qubits=2)
    P["circ_mp"] = C.Circuit([C.MultiPhaseOperation((0.1, 0.2, 0.3, 0.4)), C.H(0)], n_qubits=2)
    P["gate"] = C.RX(th)
    P["wrapped"] = C.RY(th).controlled(1).dagger
    P["gop"] = C.U3(th, 0.2, ga)(1)
    P["term"] = PauliTerm({0: "X", 2: "Z"}, 2.5)
    P["term_like"] = PauliTerm({2: "Z", 0: "X"}, -1.0)
    P["sum"] = PauliSum([PauliTerm({0: "Z", 1: "Z"}, 0.5), PauliTerm({1: "X"}, 1.5 + 0.5j), PauliTerm("I0", 2.0)])
    t_shared = PauliTerm({0: "Z", 3: "Z"}, 0.75)
    P["sum_dup"] = PauliSum([t_shared, PauliTerm({1: "Y"}, 1.0), t_shared, PauliTerm({3: "Z", 0: "Z"}, 0.25)])
    P["ising"] = PauliSum([PauliTerm({0: "Z"}, 2.0), PauliTerm({0: "Z", 1: "Z"}, -0.5), PauliTerm("I0", 1.5)])
    P["herm"] = PauliSum([PauliTerm({0: "X"}, 0.5), PauliTerm({1: "Z"}, -1.0)])
    P["sum1q"] = PauliSum([PauliTerm({0: "Z"}, 0.5), PauliTerm({0: "X"}, 0.25), PauliTerm({0: "Y"}, -2.0)])      # an operator on a one-qubit register (no Kronecker factors to multiply)
    P["wf_1q"] = Wavefunction(np.array([0.6, 0.8j]))
    P["meas"] = Measurements([(0, 1), (1, 1), (0, 1), (1, 0)])
    P["dist1"] = MeasurementOutcomeDistribution({"00": 0.5, "01": 0.25, "11": 0.25})
    P["dist2"] = MeasurementOutcomeDistribution({(0, 0): 1, (1, 0): 3})
    P["dist_unnorm"] = MeasurementOutcomeDistribution({(0, 0): 0.3, (1, 1): 0.3}, normalize=False)          # a legitimately unnormalised distribution object
    P["dist_round"] = MeasurementOutcomeDistribution({(0, 0, 0): 1, (0, 1, 0): 6, (1, 1, 1): 15, (1, 0, 0): 0})    # sums to 1 only up to rounding; a zero-weight key
    P["dist_params"] = {"epsilon": 1e-3, "sigma": 1.0}                                                       # one parameter dictionary shared by all distance calls
    P["sub_qubits"] = [1, 0]
    P["sub_qubits_neg"] = [-1, 0]
    P["dist_in_tuple"] = {(0, 0): 1, (1, 0): 3, (1, 1): 4}
    P["dist_in_str"] = {"00": 2, "01": 2, "10": 4}
    P["wf_num"] = Wavefunction(np.array([0.6, 0.8j, 0, 0]))
    P["wf_sym"] = Wavefunction(sympy.Matrix([a, 0.6]))
    P["wf_symnum"] = Wavefunction(sympy.Matrix([a, 0.6, 0, 0]))        # sympy-backed, then made fully numeric by element assignment
    P["wf_symnum"][0] = 0.8
    import collections as _c
    P["defmap"] = _c.defaultdict(float, {ga: -1.1})                     # partial maps of other Mapping kinds: theta is absent (a lookup must not insert it)
    P["cntmap"] = _c.Counter({ga: 2})
    # a PARAMETRIC custom definition whose matrix is held in an unsimplified form (the product of two rotations, written out), and a symbolic wavefunction with unsimplified entries:
    # a serialiser / a read must not tidy up what the caller holds
    t_, u_ = sympy.Symbol("t"), sympy.Symbol("u")
    Mu = sympy.Matrix([[sympy.cos(t_) ** 2 - sympy.sin(t_) ** 2, -2 * sympy.sin(t_) * sympy.cos(t_)], [sympy.sin(t_) * sympy.cos(t_) + sympy.cos(t_) * sympy.sin(t_), -sympy.sin(t_) ** 2 + sympy.cos(t_) ** 2]])
    udef = C.CustomGateDefinition("unsimp", Mu, (t_,))
    P["circ_unsimp"] = C.Circuit([udef(th)(0), udef(0.4)(1), C.RX(th)(1)], n_qubits=2)
    P["wf_unsimp"] = Wavefunction(sympy.Matrix([sympy.cos(a) * sympy.cos(u_) - sympy.sin(a) * sympy.sin(u_), sympy.sin(a) * sympy.cos(u_) + sympy.cos(a) * sympy.sin(u_)]))
    P["wf_col"] = Wavefunction(np.array([[0.6], [0.8j], [0], [0]]))           # amplitudes held as a column vector (what binding a symbolic state yields)
    P["symmap"] = {th: 0.3, ga: -1.1}
    P["wfmap"] = {a: 0.8}
    P["counts"] = {"01": 2, "11": 1}
    P["bitstrings"] = [(0, 1), (1, 1)]
    P["rows"] = [(0.1,), (0.2,), (0.3,)]
    P["qubits"] = [2, 0, 2]
    P["rules"] = [U3GateToRotation()]
    P["init_state"] = np.array([0.6, 0, 0.8j, 0], dtype=complex)
    P["amps_list"] = [0.5, 0.5j, -0.5, 0.5]
    P["matrix"] = [[1, 0, 0, 0], [0, 0, 1j, 0], [0, -1j, 0, 0], [0, 0, 0, -1]]
    # a parameterless custom definition whose exact entries are NOT in sympy's simplified form (evaluating a power of the gate must not tidy up the definition)
    ex = sympy
    Mx = ex.Matrix([[ex.exp(ex.I * ex.pi / 4) / ex.sqrt(2), ex.exp(ex.I * ex.pi / 4) / ex.sqrt(2)], [ex.exp(-ex.I * ex.pi / 4) / ex.sqrt(2), -ex.exp(-ex.I * ex.pi / 4) / ex.sqrt(2)]])
    xdef = C.CustomGateDefinition("exactdef", Mx, ())
    P["circ_exact"] = C.Circuit([xdef()(0), xdef().power(0.5)(1), xdef().controlled(1)(1, 0)], n_qubits=2)
    P["gate_exact_root"] = xdef().power(0.5)
    P["bit_array"] = np.array([[0, 1, 1], [1, 1, 0], [1, 0, 1], [1, 1, 1]])                      # an integer array of shots, as handed to the vectorised parity routines
    P["bit_tuples"] = [(0, 1, 1), (1, 1, 0), (1, 0, 1), (1, 1, 1)]
    P["circ_empty"] = C.Circuit([], n_qubits=2)
    P["init_float_state"] = np.array([0.6, 0.0, 0.8, 0.0]) * (1 + 3e-9)                              # float array, norm off by 3e-9 (rounding of an earlier computation)
    P["init_complex_state"] = np.array([0.6, 0, 0.8j, 0], dtype=complex) * (1 - 2e-9)
    P["_dir"] = workdir
    return P


def snap(P):
    return {k: (canon(v) if k != "rules" else len(v)) for k, v in P.items() if not k.startswith("_")}


def _file(P, name, writer):
    p = os.path.join(P["_dir"], name)
    writer(p)
    return open(p).read()


def _aug(P, key, other, op):
    """augmented assignment on a local alias: `x = pool[key]; x op= other` - the pool object itself must stay what it was"""
    x = P[key]
    if op == "+":
        x += other
    elif op == "-":
        x -= other
    elif op == "*":
        x *= other
    elif op == "/":
        x /= other
    elif op == "**":
        x **= other
    return x


def PauliTerm_(ops, c):
    from orquestra.quantum.operators import PauliTerm
    return PauliTerm(ops, c)


def menu():
    from orquestra.quantum import circuits as C
    from orquestra.quantum import operators as O
    from orquestra.quantum.operators._utils import get_pauliop_from_matrix
    from orquestra.quantum import measurements as M
    from orquestra.quantum import distributions as D
    from orquestra.quantum import wavefunction as W
    from orquestra.quantum.decompositions import decompose_orquestra_circuit
    from orquestra.quantum.evolution import time_evolution, time_evolution_for_term
    from orquestra.quantum.runners.symbolic_simulator import SymbolicSimulator
    ops = {
        # circuits
        "circ+circ": lambda P: P["circ"] + P["circ_num"],
        "circ+op": lambda P: P["circ"] + P["gop"],
        "circ.bind": lambda P: P["circ"].bind(P["symmap"]),
        "circ.bind_partial": lambda P: P["circ"].bind({sympy.Symbol("gamma"): 1.0}),
        "circ_num.inverse": lambda P: P["circ_num"].inverse(),
        "circ.inverse": lambda P: P["circ"].inverse(),
        "circ.controlled": lambda P: P["circ"].controlled(1),
        "circ.to_dict": lambda P: C.to_dict(P["circ"]),
        "circ.save": lambda P: _file(P, "c.json", lambda p: C.save_circuit(P["circ"], p)),
        "circset.save": lambda P: _file(P, "cs.json", lambda p: C.save_circuitset([P["circ"], P["circ_num"]], p)),
        "circ_num.to_unitary": lambda P: P["circ_num"].to_unitary(),
        "circ.free_symbols": lambda P: P["circ"].free_symbols,
        "circ.operations": lambda P: list(P["circ"].operations),
        "circ.collect_defs": lambda P: [d.gate_name for d in P["circ"].collect_custom_gate_definitions()],
        "circ.decompose": lambda P: decompose_orquestra_circuit(P["circ"], P["rules"]),
        "circ_num.decompose": lambda P: decompose_orquestra_circuit(P["circ_num"], P["rules"]),
        "circ.eq": lambda P: P["circ"] == P["circ_num"],
        "sim.wavefunction": lambda P: SymbolicSimulator().get_wavefunction(P["circ_num"]),
        "sim.wavefunction_init": lambda P: SymbolicSimulator().get_wavefunction(P["circ_mp"], P["init_state"]),
        "sim.wavefunction_init_num": lambda P: SymbolicSimulator().get_wavefunction(P["circ_num"], P["init_state"]),
        "sim.sample": lambda P: SymbolicSimulator(seed=1).run_and_measure(P["circ_num"], 3),
        "sim.exact_dist": lambda P: SymbolicSimulator().get_measurement_outcome_distribution(P["circ_num"], None),
        "sim.exact_exp": lambda P: SymbolicSimulator().get_exact_expectation_values(P["circ_num"], P["herm"]),
        "exact.root.matrix": lambda P: P["gate_exact_root"].matrix,
        "exact.to_unitary": lambda P: P["circ_exact"].to_unitary(),
        "exact.to_dict": lambda P: C.to_dict(P["circ_exact"]),
        "exact.sim": lambda P: SymbolicSimulator().get_wavefunction(P["circ_exact"]),
        "sim.empty_float_init": lambda P: SymbolicSimulator().get_wavefunction(P["circ_empty"], P["init_float_state"]),
        "sim.empty_complex_init": lambda P: SymbolicSimulator().get_wavefunction(P["circ_empty"], P["init_complex_state"]),
        "sim.float_init": lambda P: SymbolicSimulator().get_wavefunction(P["circ_num"], P["init_float_state"]),
        "parity.vector2": lambda P: M.check_parity_of_vector(P["bit_array"], [0, 2]),
        "parity.vector3": lambda P: M.check_parity_of_vector(P["bit_array"], (2, 1, 0)),
        "parity.vector1": lambda P: M.check_parity_of_vector(P["bit_array"], [1]),
        "parities.from_array": lambda P: M.get_parities_from_measurements(P["bit_tuples"], P["ising"]),
        "layer": lambda P: C.create_layer_of_gates(3, C.RX, P["rows"]),
        "apply_to_qubits": lambda P: C.apply_gate_to_qubits(P["circ_num"], P["qubits"], C.X),
        "ancilla": lambda P: C.add_ancilla_register(P["circ_num"], 2),
        # gates
        "gate.bind": lambda P: P["gate"].bind(P["symmap"]),
        "gate.dagger": lambda P: P["gate"].dagger,
        "gate.controlled": lambda P: P["gate"].controlled(2),
        "gate.replace": lambda P: P["gate"].replace_params((0.5,)),
        "gate.matrix": lambda P: P["gate"].matrix,
        "gate.call": lambda P: P["gate"](3),
        "wrapped.bind": lambda P: P["wrapped"].bind(P["symmap"]),
        "wrapped.matrix": lambda P: P["wrapped"].matrix,
        "wrapped.dagger": lambda P: P["wrapped"].dagger,
        "gop.bind": lambda P: P["gop"].bind(P["symmap"]),
        "gop.lifted": lambda P: P["gop"].bind(P["symmap"]).lifted_matrix(3),
        "gop.apply": lambda P: C.MultiPhaseOperation((0.1, 0.2, 0.3, 0.4)).apply(P["init_state"]),
        "gop.apply_gate": lambda P: C.X(1).apply(P["init_state"]),
        # operators
        "term+term": lambda P: P["term"] + P["term_like"],
        "term-term": lambda P: P["term"] - P["term_like"],
        "term*term": lambda P: P["term"] * P["term_like"],
        "term+sum": lambda P: P["term"] + P["sum"],
        "sum+term": lambda P: P["sum"] + P["term"],
        "sum-term": lambda P: P["sum"] - P["term"],
        "sum*term": lambda P: P["sum"] * P["term"],
        "term*sum": lambda P: P["term"] * P["sum"],
        "sum+sum": lambda P: P["sum"] + P["sum_dup"],
        "sum-sum": lambda P: P["sum_dup"] - P["sum"],
        "sum*sum": lambda P: P["sum"] * P["sum_dup"],
        "num+term": lambda P: 2 + P["term"],
        "term+num": lambda P: P["term"] + 2j,
        "num-sum": lambda P: 1.5 - P["sum"],
        "num*sum": lambda P: 3 * P["sum"],
        "sum*num": lambda P: P["sum"] * (1 - 1j),
        "term/num": lambda P: P["term"] / 4,
        "sum/num": lambda P: P["sum"] / 0.5,
        "term**3": lambda P: P["term"] ** 3,
        "sum**2": lambda P: P["sum"] ** 2,
        "sum_dup**2": lambda P: P["sum_dup"] ** 2,
        "sum.simplify": lambda P: P["sum"].simplify(),
        "sum_dup.simplify": lambda P: P["sum_dup"].simplify(),
        "sum_dup+term": lambda P: P["sum_dup"] + P["term"],
        "term.copy": lambda P: P["term"].copy(3.0),
        "sum.eq": lambda P: P["sum"] == P["sum_dup"],
        "sum.hash": lambda P: hash(P["sum"]) == hash(P["sum"]),
        "sum.str": lambda P: str(P["sum"]),
        "sum.hc": lambda P: O.hermitian_conjugated(P["sum"]),
        "term.hc": lambda P: O.hermitian_conjugated(P["term"]),
        "sum.is_hermitian": lambda P: O.is_hermitian(P["sum"]),
        "sum.to_dict": lambda P: O.convert_op_to_dict(P["sum"]),
        "term.to_dict": lambda P: O.convert_op_to_dict(P["term"]),
        "sum.save": lambda P: _file(P, "o.json", lambda p: O.save_operator(P["sum"], p)),
        "opset.save": lambda P: _file(P, "os.json", lambda p: O.save_operator_set([P["sum"], P["sum_dup"]], p)),
        "sum.sparse": lambda P: O.get_sparse_operator(P["sum"], 3),
        "sum_dup.sparse": lambda P: O.get_sparse_operator(P["sum_dup"]),
        "sum1q.sparse": lambda P: O.get_sparse_operator(P["sum1q"]),
        "sum1q.sparse_n1": lambda P: O.get_sparse_operator(P["sum1q"], 1),
        "sum1q.expect": lambda P: O.get_expectation_value(P["sum1q"], P["wf_1q"]),
        "term1q.sparse": lambda P: O.get_sparse_operator(PauliTerm_({0: "X"}, 3.0)),
        "sum.reverse": lambda P: O.reverse_qubit_order(P["sum"], 3),
        "sum.expectation": lambda P: O.get_expectation_value(P["herm"], P["wf_num"]),
        "sum.expectation_rev": lambda P: O.get_expectation_value(P["herm"], P["wf_num"], True),
        "term.circuit": lambda P: P["term"].circuit,
        "sum.circuits": lambda P: P["sum"].circuits,
        "sum.pauli_strings": lambda P: O.get_pauli_strings(P["sum"]),
        "matrix.expand": lambda P: get_pauliop_from_matrix(P["matrix"]),
        "evolve.sum": lambda P: time_evolution(P["herm"], 0.3, n_steps=2),
        "evolve.term": lambda P: time_evolution_for_term(P["term"], 0.3),
        # augmented assignments through an alias
        "sum+=term": lambda P: _aug(P, "sum", P["term"], "+"),
        "sum+=sum": lambda P: _aug(P, "sum", P["sum_dup"], "+"),
        "sum+=num": lambda P: _aug(P, "sum", 2.5, "+"),
        "sum-=term": lambda P: _aug(P, "sum", P["term"], "-"),
        "sum*=term": lambda P: _aug(P, "sum", P["term"], "*"),
        "sum*=num": lambda P: _aug(P, "sum", 2j, "*"),
        "sum/=num": lambda P: _aug(P, "sum", 4, "/"),
        "sum**=2": lambda P: _aug(P, "sum", 2, "**"),
        "term+=term": lambda P: _aug(P, "term", P["term_like"], "+"),
        "term*=term": lambda P: _aug(P, "term", P["term_like"], "*"),
        "term*=num": lambda P: _aug(P, "term", 3, "*"),
        "term/=num": lambda P: _aug(P, "term", 3, "/"),
        "circ+=op": lambda P: _aug(P, "circ", P["gop"], "+"),
        "circ+=circ": lambda P: _aug(P, "circ_num", P["circ_mp"], "+"),
        # measurements
        "meas.counts": lambda P: P["meas"].get_counts(),
        "meas.distribution": lambda P: P["meas"].get_distribution(),
        "meas.expectation": lambda P: P["meas"].get_expectation_values(P["ising"]),
        "meas.expectation_bessel": lambda P: P["meas"].get_expectation_values(P["ising"], True),
        "meas.parities": lambda P: M.get_parities_from_measurements(P["meas"].bitstrings, P["ising"]),
        "meas.save": lambda P: _file(P, "m.json", lambda p: P["meas"].save(p)),
        "meas.from_counts": lambda P: M.Measurements.from_counts(P["counts"]),
        "meas.ctor": lambda P: M.Measurements(list(P["bitstrings"])).get_counts(),
        "meas.frequencies": lambda P: M.get_expectation_value_from_frequencies([0, 1], P["counts"]),
        "meas.represent": lambda P: M.Measurements.get_measurements_representing_distribution(P["dist1"], 5),
        "meas.represent2": lambda P: M.Measurements.get_measurements_representing_distribution(P["dist2"], 3),
        # distributions
        "meas.represent_unnorm": lambda P: M.Measurements.get_measurements_representing_distribution(P["dist_unnorm"], 4),
        "meas.represent_round": lambda P: M.Measurements.get_measurements_representing_distribution(P["dist_round"], 7),
        "dist.sub_listarg": lambda P: P["dist_round"].subdistribution(P["sub_qubits"]),
        "dist.sub_negarg": lambda P: P["dist_round"].subdistribution(P["sub_qubits_neg"]),
        "dist.nll_params": lambda P: D.compute_clipped_negative_log_likelihood(P["dist1"], P["dist2"], P["dist_params"]),
        "dist.js_params": lambda P: D.compute_jensen_shannon_divergence(P["dist2"], P["dist1"], P["dist_params"]),
        "dist.mmd_params": lambda P: D.compute_mmd(P["dist1"], P["dist2"], P["dist_params"]),
        "dist.ctor_tuple": lambda P: D.MeasurementOutcomeDistribution(P["dist_in_tuple"]),
        "dist.ctor_str": lambda P: D.MeasurementOutcomeDistribution(P["dist_in_str"]),
        "dist.ctor_nonorm": lambda P: D.MeasurementOutcomeDistribution(P["dist_in_tuple"], normalize=False),
        "dist.sub": lambda P: P["dist1"].subdistribution([1]),
        "dist.sub_rev": lambda P: P["dist2"].subdistribution([1, 0]),
        "dist.mmd": lambda P: D.compute_mmd(P["dist1"], P["dist2"], {"sigma": 1.0}),
        "dist.mmd_swapped": lambda P: D.compute_mmd(P["dist2"], P["dist1"], {"sigma": [0.5, 2.0]}),
        "dist.nll": lambda P: D.compute_clipped_negative_log_likelihood(P["dist1"], P["dist2"], {"epsilon": 1e-9}),
        "dist.js": lambda P: D.compute_jensen_shannon_divergence(P["dist2"], P["dist1"], {"epsilon": 1e-9}),
        "dist.evaluate": lambda P: D.evaluate_distribution_distance(P["dist1"], P["dist2"], D.compute_mmd, distance_measure_parameters={"sigma": 1.0}),
        "dist.save": lambda P: _file(P, "d.json", lambda p: D.save_measurement_outcome_distribution(P["dist1"], p)),
        "dists.save": lambda P: _file(P, "ds.json", lambda p: D.save_measurement_outcome_distributions([P["dist1"], P["dist2"]], p)),
        "dist.n": lambda P: P["dist1"].get_number_of_subsystems(),
        "dist.is_normalized": lambda P: D.is_normalized(P["dist_in_tuple"]),
        # wavefunctions
        "wf.probabilities": lambda P: P["wf_num"].get_probabilities(),
        "wf.outcome_probs": lambda P: P["wf_num"].get_outcome_probs(),
        "wf.amplitudes": lambda P: np.array(P["wf_num"].amplitudes),
        "wf.bind": lambda P: P["wf_sym"].bind(P["wfmap"]),
        "wf_num.bind": lambda P: np.array(P["wf_num"].bind(P["wfmap"]).amplitudes),
        "wf.flip": lambda P: W.flip_wavefunction(P["wf_num"]),
        "wf.flip_amps": lambda P: W.flip_amplitudes(P["amps_list"]),
        "wf.save": lambda P: _file(P, "w.json", lambda p: W.save_wavefunction(P["wf_num"], p)),
        "wf.sample": lambda P: W.sample_from_wavefunction(P["wf_num"], 3, 5),
        "wf.sample_many": lambda P: W.sample_from_wavefunction(P["wf_num"], 6, 5),
        "wf.ctor_list": lambda P: W.Wavefunction(P["amps_list"]),
        "wf.eq": lambda P: P["wf_num"] == P["wf_sym"],
        "wf_symnum.probabilities": lambda P: P["wf_symnum"].get_probabilities(),
        "wf_symnum.amplitudes": lambda P: np.array(P["wf_symnum"].amplitudes),
        "wf_symnum.outcome_probs": lambda P: P["wf_symnum"].get_outcome_probs(),
        "wf_symnum.flip": lambda P: W.flip_wavefunction(P["wf_symnum"]),
        "circ.bind_defaultdict": lambda P: P["circ"].bind(P["defmap"]),
        "gop.bind_counter": lambda P: P["gop"].bind(P["cntmap"]),
        "gate.bind_defaultdict": lambda P: P["gate"].bind(P["defmap"]),
        "circ_unsimp.to_dict": lambda P: C.to_dict(P["circ_unsimp"]),
        "circ_unsimp.save": lambda P: _file(P, "cu.json", lambda p: C.save_circuit(P["circ_unsimp"], p)),
        "circ_unsimp.bind": lambda P: P["circ_unsimp"].bind({sympy.Symbol("theta"): 0.3}),
        "circ_unsimp.gate_matrix": lambda P: P["circ_unsimp"].operations[1].gate.matrix,
        "wf_unsimp.probabilities": lambda P: P["wf_unsimp"].get_probabilities(),
        "wf_unsimp.outcome_probs": lambda P: P["wf_unsimp"].get_outcome_probs(),
        "wf_unsimp.free_symbols": lambda P: sorted(map(str, P["wf_unsimp"].free_symbols)),
        "wf_col.expect": lambda P: O.get_expectation_value(P["herm"], P["wf_col"]),
        "wf_col.probabilities": lambda P: P["wf_col"].get_probabilities(),
        "wf.free_symbols": lambda P: sorted(map(str, P["wf_sym"].free_symbols)),
    }
    return ops


CORE = ["circ.bind", "circ+op", "circ.to_dict", "circ.decompose", "sim.wavefunction_init", "sim.sample", "apply_to_qubits", "wrapped.bind", "gop.apply",
        "term+term", "sum+sum", "sum*sum", "sum_dup.simplify", "sum_dup**2", "sum.to_dict", "sum_dup.sparse", "term.circuit", "evolve.sum",
        "meas.counts", "meas.expectation", "meas.represent2", "dist.ctor_tuple", "dist.sub", "dist.mmd", "wf.probabilities", "wf.bind", "wf.sample",
        "circ.inverse", "circ.controlled", "gate.matrix", "sum.simplify", "term*sum", "sum.hc", "sum.reverse", "meas.parities", "meas.distribution", "dist.nll", "wf.flip", "sim.exact_dist",
        "circ_num.to_unitary"]

_MENU = None


def run_op(name, P):
    global _MENU
    if _MENU is None:
        _MENU = menu()
    with seams.owned_rng(seams.Script()):
        return _MENU[name](P)


def diff_keys(a, b):
    return [k for k in a if a[k] != b.get(k)]


_FRESH = {}


def seq_case(case):
    """{'ops': [names]}"""
    names = case["ops"]
    workdir = tempfile.mkdtemp(prefix="c20.", dir="/dev/shm" if os.path.isdir("/dev/shm") else "/var/tmp")
    try:
        P = build_pool(workdir)
        s0 = snap(P)
        results = []
        for i, nm in enumerate(names):
            try:
                r = run_op(nm, P)
            except seams.UnownedRandomness:
                raise
            except Exception as e:  # noqa: BLE001
                if i == 0:
                    return {"ok": False, "inconclusive": "menu operation %s fails on a fresh pool: %s: %s" % (nm, type(e).__name__, e)}
                return {"ok": False, "msg": "operation %s raises %s after %s although it works on a fresh pool" % (nm, type(e).__name__, names[:i]), "observed": str(e)[:300],
                        "sig": "history:raises"}
            results.append(canon(r))
            s = snap(P)
            if s != s0:
                ch = diff_keys(s0, s)
                return {"ok": False, "msg": "operation %s modified its argument(s): %s" % (nm, ch), "expected": jdump(s0[ch[0]])[:400], "observed": jdump(s[ch[0]])[:400],
                        "sig": "mutated:" + nm}
        if len(names) >= 2:
            # differential oracle: the last operation after the history vs on a fresh pool
            # (the result on fresh arguments is computed once per worker process and operation: it is a function of the operation alone - if hidden module state made it
            # differ between two moments of one process, the comparison below reports exactly that)
            if names[-1] not in _FRESH:
                wd2 = tempfile.mkdtemp(prefix="c20f.", dir=os.path.dirname(workdir))
                try:
                    _FRESH[names[-1]] = canon(run_op(names[-1], build_pool(wd2)))
                finally:
                    shutil.rmtree(wd2, ignore_errors=True)
            fresh = _FRESH[names[-1]]
            if results[-1] != fresh:
                return {"ok": False, "msg": "result of %s after %s differs from its result on fresh arguments" % (names[-1], names[:-1]), "expected": jdump(fresh)[:400],
                        "observed": jdump(results[-1])[:400], "sig": "history:result:" + names[-1]}
        r0 = results[-1]
        nonempty = r0 not in (None, [], {}, "")
        return {"ok": True, "nt": bool(nonempty), "ops": len(names), "key": jdump(s0)[:64] + str(len(jdump(s0))), "ntkey": jdump(names), "out": "self-loop"}
    finally:
        shutil.rmtree(workdir, ignore_errors=True)


FUNCS = {"depth1": seq_case, "pairs": seq_case, "triples": seq_case}


def run(run):
    thorough = run.tier == "thorough"
    names = list(menu().keys())
    secs = [Section("depth1", [{"ops": [n]} for n in names], seq_case, horizon=120, desc="every operation of the menu (%d) from the initial state: must be a self-loop" % len(names)),
            Section("pairs", [{"ops": [a, b]} for a in names for b in names], seq_case, horizon=120, chunk=40,
                    desc="all ordered pairs (op1; op2): state unchanged and op2's result equals its result on a fresh pool")]
    if thorough:
        secs.append(Section("triples", [{"ops": [a, b, c]} for a in CORE for b in CORE for c in CORE], seq_case, horizon=120, chunk=40,
                            desc="all triples over the %d-operation core menu" % len(CORE)))
    run.run_sections(secs)
