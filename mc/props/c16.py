"""C16 - time-evolution circuits implement exp(-i t H) term by term, and its derivative (E1 + cut-off for single terms)."""
import itertools

import numpy as np
from mc.ref.linalg import allclose as _close
import sympy

from mc.engine import Section, jdump
from mc.gates import num
from mc.ref import pauli as rp

RULE = ("single terms: all 63 non-identity Pauli strings on {0,1,2} plus gapped strings on {0,2},{1,3},{0,3} x coefficients {1,-0.5,2.5}: certificate = the circuit "
        "built with a symbolic time has exactly one parametric operation, RZ with parameter 2*c*t, so circuit - (cos(ct) I - i sin(ct) P) is a degree-1 "
        "trigonometric polynomial in s=c*t and a grid of >= 3 points in s decides ALL t (8 used, numeric-time path); sums: every ordered list (with "
        "repetition) of <= 3 terms from a non-commuting pool x steps {1,2,3} x times: structural equality with the concatenation of per-term circuits "
        "(symbolic time) and matrix equality with the ordered product of closed-form exponentials; derivatives: operator identity "
        "sum_k f_k U_k^dagger O U_k = d/dt[U^dagger O U] for EVERY Pauli string O on the register. non-trivial = term acts on >= 2 qubits or list has >= 2 non-commuting terms")
RULE += ' Round 7: XY / Heisenberg-type sums with equal adjacent couplings (and their derivatives); the imaginary-part guard through the derivatives entry point.'
RULE += ' Round 5: single terms touching qubits 8 and 9 on 9-10 qubit registers.'
ASSUMPTIONS = ["C01 (a circuit is the ordered product of its operations) lets the structural check extend the per-term all-t verdict to sums", "derivative identity is checked at listed times only (sums of incommensurate frequencies are not periodic)",
               "terms with coefficient exactly 0 are outside the derivative alphabet (the parameter shift pi/(4r) divides by zero)"]
BOUNDS = {"quick": {"term_qubits": 3, "sum_terms": 2, "steps": [1, 2, 3], "times": 2}, "thorough": {"term_qubits": 4, "sum_terms": 3, "steps": [1, 2, 3, 4], "times": 3}}
ATOL = 1e-9


def mk_term(desc):
    from orquestra.quantum.operators import PauliTerm
    c, ops = desc
    c = complex(c[0], c[1]) if isinstance(c, list) else c
    return PauliTerm({int(q): p for q, p in ops.items()}, c) if ops else PauliTerm("I0", c)


def width(ops):
    return max([int(q) for q in ops] + [-1]) + 1


def padded_unitary(circ, n):
    U = num(circ.to_unitary()) if circ.operations else np.eye(2 ** max(circ.n_qubits, 0))
    k = circ.n_qubits
    if k > n:
        raise ValueError("circuit wider than the register")
    return np.kron(U, np.eye(2 ** (n - k))) if k < n else U


def closed_form(c, ops, s_over_c_times_c, n):
    """exp(-i s P) = cos(s) I - i sin(s) P"""
    s = s_over_c_times_c
    P = rp.string_matrix(ops, n)
    return np.cos(s) * np.eye(2 ** n) - 1j * np.sin(s) * P


def term_case(case):
    """{'c': c, 'ops': {q: p}}"""
    from orquestra.quantum.evolution import time_evolution_for_term
    from orquestra.quantum.circuits import GateOperation
    c, ops = case["c"], case["ops"]
    term = mk_term([c, ops])
    n = width(ops)
    t = sympy.Symbol("t", real=True)
    cs = time_evolution_for_term(term, t)
    par = [o for o in cs.operations if o.free_symbols]
    certified = (len(par) == 1 and isinstance(par[0], GateOperation) and par[0].gate.name == "RZ" and len(par[0].params) == 1
                 and sympy.simplify(par[0].params[0] - 2 * c * t) == 0)
    k = 1
    grid = [(2 * np.pi * j / 8 + 0.2345) for j in range(8)]   # values of s = c*t over one period
    grid += [0.0, np.pi / 4, np.pi / 2, np.pi, -np.pi / 2, 2 * np.pi]   # exact special values (a branch on an exact value escapes the polynomial argument)
    skeleton = None
    for s in grid:
        tt = s / c
        circ = time_evolution_for_term(term, float(tt))
        k += 1
        if circ.n_qubits > n:
            return {"ok": False, "msg": "evolution circuit is wider than the term", "sig": "term:width"}
        U = padded_unitary(circ, n)
        exp = closed_form(c, ops, s, n)
        if not _close(U, exp, atol=ATOL):
            ph = np.vdot(exp.reshape(-1), U.reshape(-1)) / (2 ** n)
            return {"ok": False, "msg": "circuit for %s*%s at t=%.4f is not exp(-i t c P)%s" % (c, ops, tt, " (differs by the global phase %.4f%+.4fi)" % (ph.real, ph.imag) if abs(abs(ph) - 1) < 1e-9 and
                                                                                                _close(U, ph * exp, atol=1e-8) else ""),
                    "expected": str(np.round(exp, 4).tolist())[:400], "observed": str(np.round(U, 4).tolist())[:400], "sig": "term:matrix", "ops": k}
        sk = [(type(o).__name__, o.gate.name, tuple(o.qubit_indices)) for o in circ.operations]
        if skeleton is None:
            skeleton = sk
        elif sk != skeleton:
            certified = False
    # the numeric-time circuits have the same skeleton as the symbolic one (so the certificate speaks about the same circuit)
    if skeleton != [(type(o).__name__, o.gate.name, tuple(o.qubit_indices)) for o in cs.operations]:
        certified = False
    return {"ok": True, "nt": len(ops) >= 2, "ops": k, "out": "certified" if certified else "grid-only", "extra": {"certified": int(certified)}}


def far_case(case):
    """{'c': c, 'ops': {q: p}, 'times': [...]}: terms whose qubits include indices >= 8 (an order taken from a set of small ints stops being ascending there):
    the circuit's matrix on the 9-10 qubit register is exp(-i t c P)"""
    from orquestra.quantum.evolution import time_evolution_for_term
    c, ops = case["c"], case["ops"]
    term = mk_term([c, ops])
    n = width(ops)
    P = rp.string_matrix(ops, n)
    k = 0
    for tt in case["times"]:
        circ = time_evolution_for_term(term, float(tt))
        k += 1
        if circ.n_qubits > n:
            return {"ok": False, "msg": "evolution circuit is wider than the term", "sig": "far:width"}
        U = padded_unitary(circ, n)
        exp = np.cos(c * tt) * np.eye(2 ** n) - 1j * np.sin(c * tt) * P
        if not _close(U, exp, atol=ATOL):
            return {"ok": False, "msg": "circuit for %s*%s at t=%.4f is not exp(-i t c P) on %d qubits" % (c, ops, tt, n), "observed": str([(o.gate.name, o.qubit_indices) for o in circ.operations])[:400],
                    "sig": "far:matrix", "ops": k}
    return {"ok": True, "nt": len(ops) >= 2, "ops": k, "out": "n%d" % n}


def special_case(case):
    from orquestra.quantum.evolution import time_evolution_for_term, time_evolution
    from orquestra.quantum.operators import PauliTerm, PauliSum
    kind = case["kind"]
    if kind == "constant":
        for c in (1.0, -2.5, 0.0):
            circ = time_evolution_for_term(PauliTerm("I0", c), 0.7)
            if len(circ.operations) != 0:
                return {"ok": False, "msg": "constant term does not give an empty circuit", "observed": str(circ), "sig": "term:constant"}
        return {"ok": True, "nt": False, "out": "constant"}
    if kind == "imag":
        c = complex(case["c"][0], case["c"][1])
        for ops in ({0: "Z"}, {0: "X", 1: "Y"}):
            try:
                time_evolution_for_term(PauliTerm(ops, c), 0.3)
            except ValueError:
                continue
            return {"ok": False, "msg": "coefficient %s with a non-negligible imaginary part was accepted (silently truncated)" % c, "sig": "term:imag-accepted"}
        Hsame = PauliSum([PauliTerm({0: "Z"}, 1.0), PauliTerm({1: "X"}, c)])
        for attempt in (1, 2, 3):      # the SAME operator object handed over again after the caller caught the refusal: refused every time
            try:
                time_evolution(Hsame, 0.3) if attempt != 3 else time_evolution(Hsame, 0.3, n_steps=2)
            except ValueError:
                continue
            return {"ok": False, "msg": "sum with complex coefficient %s accepted (attempt %d with the same operator object)" % (c, attempt), "sig": "sum:imag-accepted"}
        Hlate = PauliSum([PauliTerm({0: "Z"}, 1.0), PauliTerm({1: "X"}, 0.5)])
        time_evolution(Hlate, 0.3)           # fine while real ...
        Hlate.terms[1].coefficient = c       # ... then a coefficient of the same object is made complex
        try:
            time_evolution(Hlate, 0.3)
        except ValueError:
            pass
        else:
            return {"ok": False, "msg": "an operator evolved once with real coefficients and then given the complex coefficient %s was accepted" % c, "sig": "sum:imag-accepted-later"}
        # the same guard through the derivatives entry point, for every position of the complex term and 1-2 steps (a refusal of any kind counts; silent truncation does not)
        from orquestra.quantum.evolution import time_evolution_derivatives
        for Hm in (PauliSum([PauliTerm({0: "Z"}, 1.0), PauliTerm({1: "X"}, c)]), PauliSum([PauliTerm({1: "X"}, c), PauliTerm({0: "Z"}, 1.0)]), PauliSum([PauliTerm({0: "Z", 1: "Z"}, c)]), PauliTerm({0: "X", 1: "Y"}, c)):
            for ns in (1, 2):
                try:
                    import warnings
                    with warnings.catch_warnings():
                        warnings.simplefilter("ignore")
                        time_evolution_derivatives(Hm, 0.3, "Trotter", ns)
                except Exception:  # noqa: BLE001
                    continue
                return {"ok": False, "msg": "time_evolution_derivatives(%s, n_steps=%d): a coefficient with the imaginary part %g was accepted (silently truncated)" % (Hm, ns, c.imag), "sig": "derivatives:imag-accepted"}
        return {"ok": True, "nt": True, "out": "rejected"}
    if kind == "tiny-imag":
        circ = time_evolution_for_term(PauliTerm({0: "Z"}, 1 + 1e-12j), 0.3)
        ok = _close(padded_unitary(circ, 1), closed_form(1.0, {0: "Z"}, 0.3, 1), atol=ATOL)
        return {"ok": bool(ok), "nt": False, "out": "accepted", "msg": "negligible imaginary part changes the circuit", "sig": "term:tiny-imag"}
    if kind == "method":
        try:
            time_evolution(PauliSum([PauliTerm({0: "Z"}, 1.0)]), 0.3, method="Other")
        except ValueError:
            return {"ok": True, "nt": False, "out": "method"}
        return {"ok": False, "msg": "unknown method accepted", "sig": "method"}
    raise ValueError(kind)


POOL = [[1.0, {"0": "X"}], [-0.5, {"0": "Z", "1": "Z"}], [2.5, {"1": "Y"}], [0.7, {"0": "Y", "1": "X"}], [1.5, {}], [-1.1, {"0": "Z", "2": "X"}]]


def ref_evolution(terms, t, steps, n):
    """product over steps of product over terms (first listed term right-most)"""
    U = np.eye(2 ** n, dtype=complex)
    for _ in range(steps):
        for c, ops in terms:
            if ops:
                U = closed_form(c, ops, c * t / steps, n) @ U
    return U


def sum_case(case):
    """{'terms': [[c, ops]..], 'steps': k, 'as': 'sum'|'term'}"""
    from orquestra.quantum.evolution import time_evolution, time_evolution_for_term
    from orquestra.quantum.operators import PauliSum
    terms, steps = case["terms"], case["steps"]
    H = PauliSum([mk_term(t) for t in terms])
    n = max([width(o) for _, o in terms] + [1])
    t = sympy.Symbol("t", real=True)
    cs = time_evolution(H, t, n_steps=steps)
    want = []
    for _ in range(steps):
        for tm in terms:
            want += list(time_evolution_for_term(mk_term(tm), t / steps).operations)
    structural = len(cs.operations) == len(want) and all(a == b for a, b in zip(cs.operations, want))
    # structural equality is a CERTIFICATE (with C01 and the per-term all-t verdict it extends the matrix identity to every t); a circuit
    # that differs structurally (e.g. merges commuting duplicates) may still be correct, so it is only judged by its matrix on the time grid
    k = 1
    for tt in case["times"]:
        circ = time_evolution(H, tt, n_steps=steps)
        k += 1
        if circ.n_qubits > n:
            return {"ok": False, "msg": "evolution circuit wider than the Hamiltonian", "sig": "sum:width"}
        U = padded_unitary(circ, n)
        exp = ref_evolution(terms, tt, steps, n)
        if not _close(U, exp, atol=ATOL):
            return {"ok": False, "msg": "U(time_evolution(H, %s, steps=%d)) is not the ordered product of exp(-i t/steps c_j P_j)" % (tt, steps), "sig": "sum:matrix",
                    "expected": str(np.round(exp, 4).tolist())[:300], "observed": str(np.round(U, 4).tolist())[:300], "ops": k}
    nc = sum(1 for _, o in terms if o)
    return {"ok": True, "nt": nc >= 2, "ops": k, "out": "steps%d%s" % (steps, "" if structural else ":grid-only"), "extra": {"certified": int(structural)}}


def pauli_strings(n):
    return [{q: p for q, p in enumerate(ps) if p != "I"} for ps in itertools.product("IXYZ", repeat=n)]


def deriv_case(case):
    """{'terms': [...], 'steps': k, 'times': [...]}: sum_k f_k U_k^dag O U_k == d/dt [U(t)^dag O U(t)] for every Pauli string O"""
    from orquestra.quantum.evolution import time_evolution_derivatives
    from orquestra.quantum.operators import PauliSum
    terms, steps = case["terms"], case["steps"]
    H = PauliSum([mk_term(t) for t in terms])
    n = max([width(o) for _, o in terms] + [1])
    live = [(c, o) for c, o in terms if o]
    k = 0
    for tt in case["times"]:
        circuits, factors = time_evolution_derivatives(H, tt, n_steps=steps)
        circuits, factors = list(circuits), list(factors)
        k += 1
        if len(circuits) != len(factors):
            return {"ok": False, "msg": "number of derivative circuits and factors differ", "sig": "deriv:lengths"}
        Us = [padded_unitary(c, n) for c in circuits]
        # reference: U = E_M ... E_1, dU = sum_m E_M..E_{m+1} (dE_m) E_{m-1}..E_1, dE_m = (-i c_m/steps) P_m E_m
        seq = [(c, o) for _ in range(steps) for c, o in live]
        E = [closed_form(c, o, c * tt / steps, n) for c, o in seq]
        dE = [(-1j * c / steps) * rp.string_matrix(o, n) @ e for (c, o), e in zip(seq, E)]
        U = np.eye(2 ** n, dtype=complex)
        for e in E:
            U = e @ U
        dU = np.zeros_like(U)
        for m in range(len(E)):
            A = np.eye(2 ** n, dtype=complex)
            for l, e in enumerate(E):
                A = (dE[m] if l == m else e) @ A
            dU = dU + A
        for O in pauli_strings(n):
            Om = rp.string_matrix(O, n)
            lhs = sum(f * (Uk.conj().T @ Om @ Uk) for f, Uk in zip(factors, Us))
            rhs = dU.conj().T @ Om @ U + U.conj().T @ Om @ dU
            k += 1
            if not _close(lhs, rhs, atol=1e-8):
                return {"ok": False, "msg": "factor-weighted sum over the derivative circuits is not d/dt of the evolved observable %s (t=%s, steps=%d)" % (O, tt, steps),
                        "expected": str(np.round(rhs, 4).tolist())[:300], "observed": str(np.round(lhs, 4).tolist())[:300], "sig": "deriv:identity", "ops": k}
    return {"ok": True, "nt": len(live) >= 2 or steps >= 2, "ops": k, "out": "steps%d" % steps}


def symbolic_case(case):
    """symbolic-time path through to_unitary (sympy) on small registers, evaluated at two times"""
    from orquestra.quantum.evolution import time_evolution
    from orquestra.quantum.operators import PauliSum
    terms = case["terms"]
    H = PauliSum([mk_term(t) for t in terms])
    n = max([width(o) for _, o in terms] + [1])
    t = sympy.Symbol("t", real=True)
    circ = time_evolution(H, t, n_steps=case["steps"])
    if not circ.operations:
        return {"ok": True, "skip": True}
    # (Circuit.to_unitary on a circuit mixing numeric and symbolic gates multiplies numpy and sympy matrices, which sympy 1.9 cannot do with
    #  numpy-2 scalars in this image - an environment incompatibility outside the alphabet; the symbolic circuit is bound, then evaluated)
    for tt in (0.37, -1.3):
        bound = circ.bind({t: tt})
        if bound.free_symbols:
            return {"ok": False, "msg": "binding the time symbol leaves free symbols", "sig": "symbolic:bind"}
        U = num(bound.to_unitary())
        if circ.n_qubits < n:
            U = np.kron(U, np.eye(2 ** (n - circ.n_qubits)))
        exp = ref_evolution(terms, tt, case["steps"], n)
        if not _close(U, exp, atol=1e-8):
            return {"ok": False, "msg": "symbolic-time circuit bound at t=%s differs from the closed form" % tt, "sig": "symbolic:matrix"}
    return {"ok": True, "nt": True, "ops": 2, "out": "symbolic"}


FUNCS = {"model_sums": sum_case, "model_derivatives": deriv_case, "far_qubits": far_case, "terms": term_case, "special": special_case, "sums": sum_case, "derivatives": deriv_case, "symbolic_time": symbolic_case}


def run(run):
    thorough = run.tier == "thorough"
    strs = [{str(q): p for q, p in zip((0, 1, 2), ps) if p != "I"} for ps in itertools.product("IXYZ", repeat=3)][1:]
    for qs in ((0, 2), (1, 3), (0, 3)):
        strs += [{str(qs[0]): a, str(qs[1]): b} for a in "XYZ" for b in "XYZ"]
    if thorough:
        strs += [{str(q): p for q, p in zip((0, 1, 2, 3), ps)} for ps in itertools.product("XYZ", repeat=4)]
    seen, uniq = set(), []
    for s in strs:
        if jdump(s) not in seen:
            seen.add(jdump(s)); uniq.append(s)
    secs = [Section("terms", [{"c": c, "ops": s} for s in uniq for c in (1.0, -0.5, 2.5)], term_case, horizon=300, desc="single-term evolution vs cos(ct) I - i sin(ct) P, certificate + 8-point grid")]
    far = [{"1": "Z", "8": "Z"}, {"3": "X", "8": "Y"}, {"1": "Y", "2": "Z", "8": "X"}, {"8": "X"}, {"0": "Z", "8": "X"}, {"8": "Y", "5": "Z"}, {"7": "X", "8": "Z"}, {"0": "X", "4": "Y", "8": "Z"},
           {"8": "Z", "3": "Z", "1": "Z"}] + ([{"0": "X", "9": "Z"}, {"1": "Y", "8": "Z", "9": "X"}, {"9": "Y", "2": "X"}] if thorough else [{"2": "Y", "9": "X"}])
    secs.append(Section("far_qubits", [{"c": c, "ops": o, "times": [0.37, -1.3] if thorough else [0.37]} for o in far for c in ((1.0, -0.5) if thorough else (-0.5,))], far_case, horizon=600, chunk=1,
                        desc="single-term evolution on 9-10 qubit registers: terms touching qubits 8 and 9 next to low qubits"))
    sp = [{"kind": "constant"}, {"kind": "tiny-imag"}, {"kind": "method"}] + [{"kind": "imag", "c": c} for c in ([1, 0.5], [1, -0.5], [0, 0.5], [0, -0.5], [1, 1e-3], [1, -1e-3],
                                                                                                   # small in relative terms, still far (>= 1000x) above the 1e-9 cut: dropping them changes exp(-itH) visibly
                                                                                                   [1, 1e-6], [1, -1e-6], [2.5, 1e-5], [1000, 5e-3], [1000, -5e-3], [1e-3, 1e-6], [0, 1e-6], [123456.0, 1e-3])]
    secs.append(Section("special", sp, special_case, desc="constant terms, imaginary-part guard (both signs), unknown method"))
    times = [0.37, -1.3, 2.9] if thorough else [0.37, -1.3]
    L = 3 if thorough else 2
    lists = [list(c) for k in range(1, 4) for c in itertools.product(range(len(POOL)), repeat=k)]   # all ordered lists (with repetition) of <= 3 pool terms, both tiers
    steps = [1, 2, 3, 4] if thorough else [1, 2, 3]
    secs.append(Section("sums", [{"terms": [POOL[i] for i in l], "steps": s, "times": times} for l in lists for s in steps], sum_case, horizon=300,
                        desc="time_evolution on ordered term lists (with repetition): structure + matrix"))
    # model Hamiltonians: XX + YY (+ ZZ) on one pair with EQUAL couplings listed next to each other (XY / Heisenberg models), in every order, also on two pairs
    md = []
    for cpl in (0.7, -1.3):
        xx, yy, zz = [cpl, {"0": "X", "1": "X"}], [cpl, {"0": "Y", "1": "Y"}], [cpl, {"0": "Z", "1": "Z"}]
        xx2, yy2 = [cpl, {"1": "X", "2": "X"}], [cpl, {"1": "Y", "2": "Y"}]
        md += [list(p_) for p_ in itertools.permutations([xx, yy])] + [list(p_) for p_ in itertools.permutations([xx, yy, zz])] + [[xx, yy, xx2, yy2], [yy2, xx2, yy, xx], [xx, [0.5, {"0": "Z"}], yy], [xx, [2 * cpl, {"0": "Y", "1": "Y"}]]]
    secs.append(Section("model_sums", [{"terms": t_, "steps": s_, "times": times} for t_ in md for s_ in (1, 2, 3)], sum_case, horizon=300, desc="XY / Heisenberg-type sums (XX, YY, ZZ with equal couplings, adjacent, every order): matrix of the ordered product"))
    secs.append(Section("model_derivatives", [{"terms": t_, "steps": s_, "times": times[:1]} for t_ in md if len(t_) <= 3 and max(int(q_) for _, o_ in t_ for q_ in o_) <= 1 for s_ in (1, 2)], deriv_case, horizon=600,
                        desc="derivative circuits of the XY / Heisenberg-type sums"))
    P2 = [p for p in POOL if width(p[1]) <= 2]
    dl = [list(c) for k in range(1, L + 1) for c in itertools.product(range(len(P2)), repeat=k)]
    dcases = [{"terms": [P2[i] for i in l], "steps": s, "times": times[:2]} for l in dl for s in steps]
    dcases += [{"terms": [POOL[5], POOL[0], POOL[1]], "steps": s, "times": times[:1]} for s in (1, 2)]
    secs.append(Section("derivatives", dcases, deriv_case, horizon=600, desc="parameter-shift circuits and factors: operator identity for every Pauli string observable"))
    secs.append(Section("symbolic_time", [{"terms": [P2[i] for i in l], "steps": s} for l in dl[: (40 if thorough else 12)] for s in (1, 2)], symbolic_case, horizon=600,
                        desc="symbolic-time path via sympy to_unitary on <=2 qubits"))
    run.run_sections(secs)
