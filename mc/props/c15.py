"""C15 - estimation returns one correctly weighted result per task, in task order (E1)."""
import itertools

import numpy as np
from mc.ref.linalg import allclose as _close
import sympy

from mc.engine import Section, jdump
from mc.gates import G, mk_circuit
from mc.props.c01 import ref_unitary
from mc.props.c04 import alphabet as c04_alphabet
from mc.ref import pauli as rp
from mc import seams

RULE = ("task lists: EVERY list of <=L tasks over 8 concrete tasks of the three kinds (measurable with task-specific coefficients incl. a constant term, constant "
        "operators as term / sum of constants / empty sum, zero-shot non-constant) - circuits prepare basis states so every Z-term value is exactly coefficient x "
        "eigenvalue whatever the (scripted) sampler answers; shot sweep: every basis state of 3 qubits x every Z-subset x shot counts on both sides of the "
        "sampler's internal threshold, and EVERY shot count 1..130 on two basis states with bit-exact comparison; exact values: circuits x operators incl. X/Y terms and constants, tasks with shot numbers None/0/5 vs psi^dagger M psi; binding: every list of <=3 tasks "
        "(two sharing ONE circuit object, zero-shot and constant-operator tasks with parametrised circuits) x per-task maps. non-trivial = list mixing at least two task kinds / non-palindromic basis state")
RULE += ' Also: unsimplified operators repeating a support with different coefficients; a second estimation after the caller shifted the first results in place; symbols with assumptions in symbol maps.'
RULE += ' Round 7: numpy-integer shot counts; circuits a few 1e-9 apart on one simulator; the task list object compared after binding, second binding call with other values.'
RULE += ' Round 6: measurable tasks whose non-constant terms all have coefficient 0; exact values on states with complex amplitudes (RX / S / T / asymmetric custom gates).'
RULE += ' Round 5: bare multi-qubit PauliTerm operators of measured tasks; a second exact evaluation after the operators were rescaled in place; basis states of 9-10 qubits with terms coupling qubits 8+ to lower ones.'
ASSUMPTIONS = ["sampling randomness scripted with default answers (basis states have a single outcome with p>1e-12)", "the runner records what it is asked to run through an overriding subclass that only logs and delegates"]
BOUNDS = {"quick": {"list_len": 4}, "thorough": {"list_len": 5}}


def tasks_pool():
    from orquestra.quantum import circuits as C
    from orquestra.quantum.api.estimation import EstimationTask
    from orquestra.quantum.operators import PauliTerm, PauliSum
    Z = lambda qs, c: PauliTerm({q: "Z" for q in qs}, c)  # noqa: E731
    T = []
    # (task, kind, expected values, basis bits)
    T.append((EstimationTask(PauliSum([Z([0], 2.0), Z([0, 1], -0.5)]), C.Circuit([C.X(0)], n_qubits=2), 1), "measured", [-2.0, 0.5]))
    T.append((EstimationTask(PauliSum([Z([1], 1.5), Z([0, 1, 2], 0.25), PauliTerm("I0", 3.0)]), C.Circuit([C.X(1), C.X(2)], n_qubits=3), 3), "measured", [-1.5, 0.25, 3.0]))
    T.append((EstimationTask(Z([2], 0.7), C.Circuit([C.X(2)], n_qubits=3), 10), "measured", [-0.7]))
    T.append((EstimationTask(PauliTerm("I0", 4.25), C.Circuit([C.X(0)], n_qubits=1), 5), "constant", [4.25]))
    T.append((EstimationTask(PauliSum([PauliTerm("I0", 1.0), PauliTerm("I0", -0.5)]), C.Circuit([C.H(0)], n_qubits=1), 2), "constant", [0.5]))
    T.append((EstimationTask(Z([0], 1.1), C.Circuit([C.X(0)], n_qubits=1), 0), "zero-shot", [0.0]))
    T.append((EstimationTask(PauliSum(), C.Circuit([C.X(0)], n_qubits=2), 0), "constant", [0.0]))
    T.append((EstimationTask(PauliSum([PauliTerm("I0", 4.0), Z([0], 2.0), Z([1], -3.0)]), C.Circuit([C.X(1)], n_qubits=2), 0), "zero-shot", [0.0]))
    # an operator as written by a user (not simplified): the same Z-support listed several times with different coefficients
    T.append((EstimationTask(PauliSum([Z([0], 2.0), Z([1], 0.5), Z([0], 3.0), Z([1, 0], 4.0), Z([0, 1], -1.0)]), C.Circuit([C.X(0)], n_qubits=2), 4), "measured", [-2.0, 0.5, -3.0, -4.0, 1.0]))
    # a bare PauliTerm (not a sum) on two / three qubits as the operator of a measured task: exactly one value
    T.append((EstimationTask(Z([0, 2], 1.5), C.Circuit([C.X(0)], n_qubits=3), 3), "measured", [-1.5]))
    T.append((EstimationTask(Z([2, 0, 1], -0.25), C.Circuit([C.X(1), C.X(2)], n_qubits=3), 2), "measured", [-0.25]))
    # shot counts that come out of an allocation array: numpy integers are positive shot counts like any other
    T.append((EstimationTask(PauliSum([Z([0], 2.0), Z([1], -0.5)]), C.Circuit([C.X(0)], n_qubits=2), np.int64(3)), "measured", [-2.0, -0.5]))
    T.append((EstimationTask(Z([1], 1.25), C.Circuit([C.X(1)], n_qubits=2), np.int32(2)), "measured", [-1.25]))
    return T


def logging_runner(log):
    from orquestra.quantum.runners.symbolic_simulator import SymbolicSimulator

    class Logged(SymbolicSimulator):
        def run_batch_and_measure(self, circuits_batch, n_samples):
            log.append(("batch", list(circuits_batch), list(n_samples) if not isinstance(n_samples, int) else n_samples))
            return super().run_batch_and_measure(circuits_batch, n_samples)
    return Logged(seed=11)


def list_case(case):
    """{'tasks': [indices into the pool]}"""
    from orquestra.quantum.estimation import estimate_expectation_values_by_averaging
    pool = tasks_pool()
    tasks = [pool[i][0] for i in case["tasks"]]
    log = []
    runner = logging_runner(log)
    with seams.owned_rng(seams.Script()):
        res = estimate_expectation_values_by_averaging(runner, list(tasks))
    if len(res) != len(tasks):
        return {"ok": False, "msg": "%d results for %d tasks" % (len(res), len(tasks)), "sig": "list:length"}
    for pos, (i, r) in enumerate(zip(case["tasks"], res)):
        _, kind, exp = pool[i]
        if r is None:
            return {"ok": False, "msg": "no result at position %d" % pos, "sig": "list:none"}
        vals = np.asarray(r.values, dtype=complex).reshape(-1)
        if kind == "constant":
            ok = abs(vals.sum() - exp[0]) < 1e-12 and len(vals) >= 1
        elif kind == "zero-shot":
            ok = _close(vals, 0) and len(vals) >= 1
        else:
            ok = len(vals) == len(exp) and _close(vals, exp, atol=1e-12)
        if not ok:
            return {"ok": False, "msg": "position %d (task %d, %s): result does not belong to this task / is not correctly weighted" % (pos, i, kind), "expected": str(exp),
                    "observed": str(vals.tolist()), "sig": "list:value:" + kind}
    want = [(pool[i][0].circuit, pool[i][0].number_of_shots) for i in case["tasks"] if pool[i][1] == "measured"]
    # tasks were rebuilt from a fresh pool inside this case: compare by (width, number of ops, shots)
    seen = [(c, n) for entry in log for c, n in zip(entry[1], entry[2] if not isinstance(entry[2], int) else [entry[2]] * len(entry[1]))]
    sig_of = lambda c, n: (c.n_qubits, len(c.operations), n)  # noqa: E731
    if [sig_of(c, n) for c, n in seen] != [sig_of(c, n) for c, n in want] or any(a is not b for (a, _), (b, _) in zip(seen, want)):
        return {"ok": False, "msg": "the runner was not given exactly the measurable tasks, in order, with their shots", "expected": str([sig_of(c, n) for c, n in want]),
                "observed": str([sig_of(c, n) for c, n in seen]), "sig": "list:runner-saw"}
    kinds = {pool[i][1] for i in case["tasks"]}
    # the caller owns the results: after shifting every returned result in place, a second estimation of freshly built tasks must be unaffected
    for r in res:
        try:
            r.values += 7.0
        except Exception:  # noqa: BLE001
            pass
    pool2 = tasks_pool()
    with seams.owned_rng(seams.Script()):
        res2 = estimate_expectation_values_by_averaging(logging_runner([]), [pool2[i][0] for i in case["tasks"]])
    for pos, (i, r) in enumerate(zip(case["tasks"], res2)):
        _, kind, exp = pool2[i]
        vals = np.asarray(r.values, dtype=complex).reshape(-1)
        ok = (abs(vals.sum() - exp[0]) < 1e-12) if kind == "constant" else (_close(vals, 0) if kind == "zero-shot" else (len(vals) == len(exp) and _close(vals, exp, atol=1e-12)))
        if not ok:
            return {"ok": False, "msg": "second estimation (after the caller modified the first results in place), position %d (%s): wrong values" % (pos, kind), "expected": str(exp), "observed": str(vals.tolist()),
                    "sig": "list:second-call"}
    return {"ok": True, "nt": len(kinds) >= 2, "ops": 2 * len(tasks), "out": "+".join(sorted(kinds))[:40]}


def zero_coef_case(case):
    """{'tasks': [indices into the extended pool]}: task lists containing measurable tasks whose NON-constant terms all carry the coefficient 0 (a model Hamiltonian at zero coupling):
    still one result per task, at its position, one value per term (zero for the zero-coefficient terms, the constant for a constant term)"""
    from orquestra.quantum import circuits as C
    from orquestra.quantum.api.estimation import EstimationTask
    from orquestra.quantum.estimation import estimate_expectation_values_by_averaging
    from orquestra.quantum.operators import PauliTerm, PauliSum
    Z = lambda qs, c: PauliTerm({q: "Z" for q in qs}, c)  # noqa: E731
    base = tasks_pool()
    ext = [(base[0][0], base[0][2]), (base[3][0], base[3][2]), (base[5][0], base[5][2]),
           (EstimationTask(Z([1], 0.0), C.Circuit([C.X(0)], n_qubits=2), 3), [0.0]),
           (EstimationTask(PauliSum([Z([0], 0.0), Z([0, 1], 0), PauliTerm("I0", 2.0)]), C.Circuit([C.X(0)], n_qubits=2), 2), [0.0, 0.0, 2.0]),
           (EstimationTask(PauliSum([Z([0], 0.0)]), C.Circuit([C.X(1)], n_qubits=2), 4), [0.0]),
           (EstimationTask(PauliSum([Z([0], 0j), Z([1], -0.0)]), C.Circuit([C.X(1)], n_qubits=2), 1), [0.0, 0.0])]
    tasks = [ext[i][0] for i in case["tasks"]]
    with seams.owned_rng(seams.Script()):
        try:
            res = estimate_expectation_values_by_averaging(logging_runner([]), list(tasks))
        except Exception as e:  # noqa: BLE001
            return {"ok": False, "msg": "estimation of a task list with zero-coefficient terms raises %s: %s" % (type(e).__name__, str(e)[:120]), "sig": "zerocoef:raises"}
    if len(res) != len(tasks):
        return {"ok": False, "msg": "%d results for %d tasks" % (len(res), len(tasks)), "sig": "zerocoef:length"}
    for pos, (i, r) in enumerate(zip(case["tasks"], res)):
        exp = ext[i][1]
        vals = np.asarray(r.values, dtype=complex).reshape(-1)
        special = i in (1, 2)      # constant / zero-shot tasks of the base pool: judged as in task_lists
        ok = (abs(vals.sum() - exp[0]) < 1e-12) if i == 1 else (_close(vals, 0) if i == 2 else (len(vals) == len(exp) and _close(vals, exp, atol=1e-12)))
        if not ok:
            return {"ok": False, "msg": "position %d (task %d): result does not belong to this task" % (pos, i), "expected": str(exp), "observed": str(vals.tolist()), "sig": "zerocoef:value"}
    return {"ok": True, "nt": True, "ops": len(tasks), "out": "zerocoef"}


def split_case(case):
    from orquestra.quantum.estimation import split_estimation_tasks_to_measure
    pool = tasks_pool()
    tasks = [pool[i][0] for i in case["tasks"]]
    a, b, ia, ib = split_estimation_tasks_to_measure(list(tasks))
    exp_a = [k for k, i in enumerate(case["tasks"]) if pool[i][1] == "measured"]
    exp_b = [k for k, i in enumerate(case["tasks"]) if pool[i][1] != "measured"]
    ok = list(ia) == exp_a and list(ib) == exp_b and all(x is tasks[k] for x, k in zip(a, exp_a)) and all(x is tasks[k] for x, k in zip(b, exp_b)) and len(a) == len(exp_a) and len(b) == len(exp_b)
    r = {"ok": bool(ok), "nt": bool(exp_a) and bool(exp_b), "out": "split"}
    if not ok:
        r.update(msg="split does not partition the positions in ascending order", expected=str((exp_a, exp_b)), observed=str((list(ia), list(ib))), sig="split")
    return r


def shots_case(case):
    """{'bits': [b0,b1,b2], 'shots': n}: every Z-subset; estimated value of each term is coefficient x eigenvalue"""
    from orquestra.quantum import circuits as C
    from orquestra.quantum.api.estimation import EstimationTask
    from orquestra.quantum.estimation import estimate_expectation_values_by_averaging
    from orquestra.quantum.operators import PauliTerm, PauliSum
    from orquestra.quantum.runners.symbolic_simulator import SymbolicSimulator
    bits, n = case["bits"], len(case["bits"])
    circ = C.Circuit([C.X(q) for q, b in enumerate(bits) if b], n_qubits=n)
    subsets = [S for r in range(1, n + 1) for S in itertools.combinations(range(n), r)]
    coefs = [1.0 + 0.5 * k for k in range(len(subsets))]
    op = PauliSum([PauliTerm({q: "Z" for q in S}, c) for S, c in zip(subsets, coefs)])
    with seams.owned_rng(seams.Script()):
        res = estimate_expectation_values_by_averaging(SymbolicSimulator(seed=5), [EstimationTask(op, circ, case["shots"])])
    vals = np.asarray(res[0].values).reshape(-1)
    exp = [c * (-1) ** sum(bits[q] for q in S) for S, c in zip(subsets, coefs)]
    ok = len(vals) == len(exp) and _close(vals, exp, atol=1e-12)
    if case.get("exact"):
        # "exactly coefficient times eigenvalue regardless of shot count": all shots are identical, so the sample mean of the eigenvalue is exactly +-1
        ok = ok and [complex(v) for v in vals.tolist()] == [complex(e) for e in exp]
    r = {"ok": bool(ok), "nt": bits != bits[::-1], "out": "shots%d" % case["shots"]}
    if not ok:
        r.update(msg="basis state %s, %d shots: estimated Z-term values are not coefficient x eigenvalue" % (bits, case["shots"]), expected=str(exp), observed=str(vals.tolist()), sig="shots")
    return r


OPS_XY = [[[1.0, {"0": "X"}]], [[0.5, {"0": "Y", "1": "Z"}], [-1.5, {"1": "X"}]], [[2.0, {}], [1.0, {"0": "Z", "1": "Z"}]], [[0.7, {"0": "X", "1": "Y"}], [0.3, {"0": "Z"}], [-0.2, {"1": "Y"}]],
          [[1.0, {"2": "X", "0": "Z"}]], [[-0.5, {"0": "Y", "1": "Y", "2": "Y"}], [1.0, {"1": "Z"}]]]


def exact_case(case):
    """{'ops': circuit ops, 'n': n, 'operators': [indices]}"""
    from orquestra.quantum.api.estimation import EstimationTask
    from orquestra.quantum.estimation import calculate_exact_expectation_values
    from orquestra.quantum.operators import PauliTerm, PauliSum
    from orquestra.quantum.runners.symbolic_simulator import SymbolicSimulator
    n = case["n"]
    circ = mk_circuit(case)
    psi = ref_unitary(case["ops"], n)[:, 0]
    tasks, exps = [], []
    for oi in case["operators"]:
        desc = OPS_XY[oi]
        if max([int(q) for _, o in desc for q in o] + [0]) >= n:
            continue
        op = PauliSum([PauliTerm({int(q): p for q, p in o.items()}, c) if o else PauliTerm("I0", c) for c, o in desc])
        # the shot number of a task is irrelevant to an exact evaluation: None, 0 (a "zero-shot" task) and positive numbers alike
        tasks.append(EstimationTask(op, circ, (None, 0, 5)[len(tasks) % 3]))
        exps.append(np.vdot(psi, rp.sum_matrix(desc, n) @ psi).real)
    for c, shots in ((2.5, 0), (-1.0, 3)):
        tasks.append(EstimationTask(PauliSum([PauliTerm("I0", c)]), circ, shots))
        exps.append(c)
    res = calculate_exact_expectation_values(SymbolicSimulator(), tasks)
    if len(res) != len(tasks):
        return {"ok": False, "msg": "%d exact results for %d tasks" % (len(res), len(tasks)), "sig": "exact:length"}
    for k, (r, e) in enumerate(zip(res, exps)):
        v = np.asarray(r.values, dtype=complex).reshape(-1)
        if len(v) != 1 or abs(v[0] - e) > 1e-9:
            return {"ok": False, "msg": "exact expectation value of task %d is not the quadratic form of the state with the operator" % k, "expected": float(e), "observed": str(v.tolist()), "sig": "exact:value"}
    # the same task / operator objects evaluated again after the operators' coefficients were rescaled in place (a sweep over a coupling constant):
    # the exact value is the quadratic form of the operator as it is NOW
    for t in tasks:
        terms = t.operator.terms if hasattr(t.operator, "terms") else [t.operator]
        for j, term in enumerate(terms):
            term.coefficient = term.coefficient * (2.0 if j % 2 == 0 else -0.5)
    exps2 = []
    for t in tasks:
        terms = t.operator.terms if hasattr(t.operator, "terms") else [t.operator]
        desc = [[complex(term.coefficient), {str(q): p_ for q, p_ in term.operations}] for term in terms]
        exps2.append(np.vdot(psi, rp.sum_matrix(desc, n) @ psi).real)
    res = calculate_exact_expectation_values(SymbolicSimulator(), tasks)
    for k, (r, e) in enumerate(zip(res, exps2)):
        v = np.asarray(r.values, dtype=complex).reshape(-1)
        if len(v) != 1 or abs(v[0] - e) > 1e-9:
            return {"ok": False, "msg": "second exact evaluation of task %d after its operator's coefficients were changed in place: not the quadratic form of the operator as it is now" % k,
                    "expected": float(e), "observed": str(v.tolist()), "sig": "exact:second-call"}
    return {"ok": True, "nt": True, "ops": 2 * len(tasks), "out": "exact"}


def near_circuits_case(case):
    """{'theta': t0, 'delta': d, 'n': count}: exact expectation values of <Z> after RX(t0 + j*d), j = 0..n-1 - circuits that differ by less than the library's own gate-equality
    tolerance (a finite-difference stencil) - evaluated one after the other on ONE simulator: each value is cos of ITS OWN angle (to 1e-10)"""
    from orquestra.quantum import circuits as C
    from orquestra.quantum.api.estimation import EstimationTask
    from orquestra.quantum.estimation import calculate_exact_expectation_values
    from orquestra.quantum.operators import PauliTerm
    from orquestra.quantum.runners.symbolic_simulator import SymbolicSimulator
    sim = SymbolicSimulator()
    angles = [case["theta"] + j * case["delta"] for j in range(case["n"])]
    tasks = [EstimationTask(PauliTerm({0: "Z"}, 1.0), C.Circuit([C.RX(a_)(0)], n_qubits=1), None) for a_ in angles]
    vals = [float(np.asarray(r.values).reshape(-1)[0].real) for r in calculate_exact_expectation_values(sim, tasks)]
    vals2 = [float(np.asarray(calculate_exact_expectation_values(sim, [t_])[0].values).reshape(-1)[0].real) for t_ in tasks[::-1]][::-1]
    direct = [float(sim.get_exact_expectation_values(t_.circuit, t_.operator).values[0].real) if hasattr(sim.get_exact_expectation_values(t_.circuit, t_.operator), "values") else float(np.real(sim.get_exact_expectation_values(t_.circuit, t_.operator))) for t_ in tasks]
    for nm, got in (("one call", vals), ("one call per task, reversed order", vals2), ("simulator.get_exact_expectation_values", direct)):
        for a_, v_ in zip(angles, got):
            if abs(v_ - np.cos(a_)) > 1e-10:
                return {"ok": False, "msg": "exact <Z> after RX(%.12f) (%s; circuits %g apart on one simulator) is %.12f, cos of its own angle is %.12f" % (a_, nm, case["delta"], v_, np.cos(a_)), "sig": "exact:near-circuits"}
    return {"ok": True, "nt": True, "ops": 3 * len(tasks), "out": "near"}


def wide_case(case):
    """{'n': n, 'ones': [qubits set to 1], 'terms': [[coef, [qubits]] ...], 'shots': k}: basis states of 9-11 qubits and Z-terms coupling a qubit >= 8 with lower ones:
    exact values and estimates by averaging are coefficient x eigenvalue, one value per term"""
    from orquestra.quantum import circuits as C
    from orquestra.quantum.api.estimation import EstimationTask
    from orquestra.quantum.estimation import calculate_exact_expectation_values, estimate_expectation_values_by_averaging
    from orquestra.quantum.operators import PauliTerm, PauliSum
    from orquestra.quantum.runners.symbolic_simulator import SymbolicSimulator
    n, ones = case["n"], case["ones"]
    circ = C.Circuit([C.X(q) for q in ones], n_qubits=n)
    terms = [PauliTerm({q: "Z" for q in qs}, c) if qs else PauliTerm("I0", c) for c, qs in case["terms"]]
    exp = [c * (-1) ** sum(1 for q in qs if q in ones) for c, qs in case["terms"]]
    op = PauliSum(terms)
    res = calculate_exact_expectation_values(SymbolicSimulator(), [EstimationTask(op, circ, None)] + [EstimationTask(t, circ, 0) for t in terms])
    got = [np.asarray(r.values, dtype=complex).reshape(-1) for r in res]
    if len(got[0]) != 1 or abs(got[0][0] - sum(exp)) > 1e-9 or any(len(g) != 1 or abs(g[0] - e) > 1e-9 for g, e in zip(got[1:], exp)):
        return {"ok": False, "msg": "exact expectation values on %d qubits (state with ones at %s) are not the eigenvalue sums" % (n, ones), "expected": str([sum(exp)] + exp), "observed": str([g.tolist() for g in got]), "sig": "wide:exact"}
    with seams.owned_rng(seams.Script()):
        est = estimate_expectation_values_by_averaging(SymbolicSimulator(seed=5), [EstimationTask(op, circ, case["shots"])] + [EstimationTask(t, circ, case["shots"]) for t in terms if not t.is_constant])
    vals = np.asarray(est[0].values).reshape(-1)
    if len(vals) != len(exp) or not _close(vals, exp, atol=1e-12):
        return {"ok": False, "msg": "estimate by averaging on %d qubits: term values are not coefficient x eigenvalue" % n, "expected": str(exp), "observed": str(vals.tolist()), "sig": "wide:estimate"}
    singles = [e for (c, qs), e in zip(case["terms"], exp) if qs]
    for r, e in zip(est[1:], singles):
        v = np.asarray(r.values).reshape(-1)
        if len(v) != 1 or abs(v[0] - e) > 1e-12:
            return {"ok": False, "msg": "estimate of a bare PauliTerm task on %d qubits: %s, expected exactly one value %s" % (n, v.tolist(), e), "sig": "wide:estimate-term"}
    return {"ok": True, "nt": True, "ops": 2 + 2 * len(terms), "out": "n%d" % n}


def bind_case(case):
    """{'tasks': [indices], 'maps': [[theta, phi] per task]}: tasks 0 and 1 share ONE circuit object"""
    from orquestra.quantum import circuits as C
    from orquestra.quantum.api.estimation import EstimationTask
    from orquestra.quantum.estimation import evaluate_estimation_circuits
    from orquestra.quantum.operators import PauliTerm
    th, ph = (sympy.Symbol("theta", real=True), sympy.Symbol("phi", positive=True)) if case.get("assume") else (sympy.Symbol("theta"), sympy.Symbol("phi"))
    shared = C.Circuit([C.RX(th)(0), C.RY(ph)(1)], n_qubits=3)
    pool = [EstimationTask(PauliTerm({0: "Z"}, 1.0), shared, 5), EstimationTask(PauliTerm({1: "Z"}, 2.0), shared, 7),
            EstimationTask(PauliTerm({0: "Z", 1: "Z"}, 3.0), C.Circuit([C.RX(th * 2)(1)], n_qubits=2), None), EstimationTask(PauliTerm("I0", 1.0), C.Circuit([C.X(0)]), 0),
            # tasks that estimation would not send to a runner still carry circuits that must be bound like any other
            EstimationTask(PauliTerm({0: "Z"}, 1.0), C.Circuit([C.RX(th)(0), C.RZ(ph + th)(1)], n_qubits=2), 0), EstimationTask(PauliTerm("I0", 2.0), C.Circuit([C.RY(ph)(0)]), 4)]
    tasks = [pool[i] for i in case["tasks"]]
    maps = [{th: m[0], ph: m[1]} for m in case["maps"]]
    maps_before = [dict(m) for m in maps]
    ops_before = [[str(o) for o in t.circuit.operations] for t in tasks]
    given = list(tasks)      # the very list object the caller hands over - and keeps
    out = evaluate_estimation_circuits(given, maps)
    if len(given) != len(tasks) or any(a is not b for a, b in zip(given, tasks)):
        return {"ok": False, "msg": "evaluate_estimation_circuits replaced entries of the caller's task list", "sig": "bind:list-mutated"}
    if maps:
        # a second call on the same list with other values (the next step of an optimisation loop) binds those values
        maps2 = [{th: m[th] + 0.5, ph: m[ph] - 0.25} for m in maps]
        out2 = evaluate_estimation_circuits(given, maps2)
        for k2, (t2, o2, m2) in enumerate(zip(tasks, out2, maps2)):
            exp2 = [sympy.sympify(p).subs(m2) for op in t2.circuit.operations for p in op.params]
            got2 = [p for op in o2.circuit.operations for p in op.params]
            if len(got2) != len(exp2) or any(abs(complex(sympy.sympify(a)) - complex(b)) > 1e-12 for a, b in zip(got2, exp2)):
                return {"ok": False, "msg": "second call on the same task list with other values: task %d is not bound with them" % k2, "expected": str(exp2), "observed": str(got2), "sig": "bind:second-call"}
    if len(out) != len(tasks):
        return {"ok": False, "msg": "%d tasks returned for %d" % (len(out), len(tasks)), "sig": "bind:length"}
    for k, (t, o, m) in enumerate(zip(tasks, out, maps)):
        if o.operator is not t.operator or o.number_of_shots != t.number_of_shots:
            return {"ok": False, "msg": "task %d: operator or shots changed" % k, "sig": "bind:other-fields"}
        exp = [sympy.sympify(p).subs(m) for op in t.circuit.operations for p in op.params]
        got = [p for op in o.circuit.operations for p in op.params]
        if o.circuit.n_qubits != t.circuit.n_qubits or len(got) != len(exp) or any(abs(complex(sympy.sympify(a)) - complex(b)) > 1e-12 for a, b in zip(got, exp)) or o.circuit.free_symbols:
            return {"ok": False, "msg": "task %d: circuit is not bound with its own symbol map" % k, "expected": str(exp), "observed": str(got), "sig": "bind:own-map"}
    if maps != maps_before or [[str(o) for o in t.circuit.operations] for t in tasks] != ops_before:
        return {"ok": False, "msg": "evaluate_estimation_circuits modified its inputs", "sig": "bind:mutated"}
    return {"ok": True, "nt": len(tasks) >= 2, "ops": len(tasks), "out": "bind"}


FUNCS = {"near_circuits": near_circuits_case, "zero_coefficient_tasks": zero_coef_case, "wide": wide_case, "task_lists": list_case, "split": split_case, "shot_sweep": shots_case, "exact": exact_case, "binding": bind_case}


def run(run):
    thorough = run.tier == "thorough"
    L = 5 if thorough else 4
    lists = [list(c) for k in range(0, L + 1) for c in itertools.product(range(8), repeat=k)] + [list(c) for k in (1, 2, 3) for c in itertools.product(range(9), repeat=k) if 8 in c] + \
            [list(c) for k in (1, 2, 3) for c in itertools.product((0, 3, 5, 9, 10), repeat=k) if 9 in c or 10 in c] + \
            [list(c) for k in (1, 2, 3) for c in itertools.product((0, 3, 5, 11, 12), repeat=k) if 11 in c or 12 in c]
    secs = [Section("task_lists", [{"tasks": l} for l in lists], list_case, horizon=120, desc="every task list of length <= %d over 8 tasks of the three kinds" % L),
            Section("split", [{"tasks": l} for l in lists if len(l) <= 3], split_case, desc="split_estimation_tasks_to_measure partitions positions in ascending order")]
    zc = [list(c) for k in (1, 2, 3) for c in itertools.product(range(7), repeat=k) if any(i >= 3 for i in c)]
    secs.append(Section("zero_coefficient_tasks", [{"tasks": l} for l in zc], zero_coef_case, horizon=120, desc="task lists of <= 3 over 7 tasks, at least one with shots > 0 whose non-constant terms all have coefficient 0"))
    sw = [{"bits": list(b), "shots": s} for b in itertools.product((0, 1), repeat=3) for s in (1, 2, 3, 7, 8, 9, 10, 20)]
    sw += [{"bits": list(b), "shots": s} for b in itertools.product((0, 1), repeat=2) for s in (1, 3, 4, 5)]
    sw += [{"bits": list(b), "shots": s, "exact": True} for b in ((1, 0, 1), (0, 1, 1)) for s in range(1, 201 if thorough else 131)]
    secs.append(Section("shot_sweep", sw, shots_case, desc="basis states x shot counts on both sides of the sampler's threshold: Z-term value = coefficient x eigenvalue"))
    ex = []
    for n in (2, 3):
        A = c04_alphabet(n)
        for ln in range(0, (3 if thorough and n == 2 else 2) + 1):
            for combo in itertools.product(range(len(A)), repeat=ln):
                ex.append({"ops": [A[i] for i in combo], "n": n, "operators": list(range(len(OPS_XY)))})
    # states with COMPLEX amplitudes (the alphabet above only prepares real ones): <psi|M|psi> and <psi|M^T|psi> differ on them for terms with an odd number of Y factors
    cx = [[{"gate": G("RX", 0.7), "q": [0]}], [{"gate": G("RX", 0.7), "q": [0]}, {"gate": G("RX", -1.1), "q": [1]}], [{"gate": G("H"), "q": [0]}, {"gate": G("S"), "q": [0]}, {"gate": G("CNOT"), "q": [0, 1]}],
          [{"gate": G("H"), "q": [1]}, {"gate": G("T"), "q": [1]}, {"gate": G("RX", 0.4), "q": [0]}], [{"gate": G("custom1"), "q": [0]}, {"gate": G("custom2"), "q": [1, 0]}],
          [{"gate": G("RX", 0.7), "q": [2]}, {"gate": G("CNOT"), "q": [2, 0]}, {"gate": G("RZ", 0.9), "q": [0]}, {"gate": G("RX", 0.3), "q": [0]}]]
    ex += [{"ops": ops_, "n": n_, "operators": list(range(len(OPS_XY)))} for ops_ in cx for n_ in (2, 3) if max(q_ for o_ in ops_ for q_ in o_["q"]) < n_]
    secs.append(Section("near_circuits", [{"theta": t_, "delta": d_, "n": 4} for t_ in (np.pi / 2, 0.7, 2.2) for d_ in (8e-9, 3e-9, -6e-9, 5e-8)], near_circuits_case,
                        desc="exact values for circuits whose angles differ by 3e-9 .. 5e-8 (a finite-difference stencil) on one simulator: each value belongs to its own circuit"))
    secs.append(Section("exact", ex, exact_case, horizon=120, desc="calculate_exact_expectation_values vs psi^dagger M psi (operators with X/Y terms)"))
    wd = []
    for n in ((9, 10, 11) if thorough else (9, 10)):
        hi = n - 1
        terms = [[1.5, [1, 8]], [-0.5, [3, 8]], [2.0, [hi]], [0.25, [0, hi]], [-1.0, [2, hi, 5]], [3.0, []], [0.75, [hi - 1, hi]], [1.25, [8, 1, 2]]]
        for ones in ([8], [1, 8], [hi, 2], [0, 3, hi - 1], []):
            wd.append({"n": n, "ones": ones, "terms": terms, "shots": 3 if len(ones) % 2 else 2 ** n + 5})
    secs.append(Section("wide", wd, wide_case, horizon=600, chunk=1, desc="basis states of 9-10 (thorough 11) qubits, Z-terms coupling qubits 8+ with lower ones: exact values and estimates, sums and bare terms"))
    MV = [[0.3, -1.1], [2.5, 0.7], [-0.4, 0.0]]
    bc = []
    for k in range(0, 4):
        for idx in itertools.product(range(6), repeat=k):
            for ms in ([MV[:k]] if k else [[]]) + ([[MV[(j + 1) % 3] for j in range(k)]] if k else []):
                bc.append({"tasks": list(idx), "maps": ms})
                if k <= 2:
                    bc.append({"tasks": list(idx), "maps": ms, "assume": True})
    secs.append(Section("binding", bc, bind_case, horizon=120, desc="evaluate_estimation_circuits: every list of <=3 tasks (two share one circuit object) x per-task maps"))
    run.run_sections(secs)
