"""Seams the harness owns: scripted numpy RNG entry points (E3) and a deviation-bounded explorer over their answers.

The library reaches randomness only through `np.random.default_rng(seed).choice(...)` (sample_from_wavefunction) and the global
`np.random.choice(...)` (sample_from_probability_distribution); both are looked up as attributes of `numpy.random` at call time, so the
doubles are installed by attribute replacement inside a context manager. Every *draw* is one choice point whose alternatives are the
indices with p > 0, in index order; answer 0 (the default) is the first such index. Any other source of randomness is trapped."""
import contextlib
import random as _pyrandom

import numpy as np


class Divergence(Exception):
    """a replayed prefix asked for an alternative that does not exist: hard harness error"""


class UnownedRandomness(Exception):
    pass


class Script:
    def __init__(self, prefix=()):
        self.prefix = list(prefix)
        self.choices = []      # the answer taken at every choice point
        self.points = []       # number of alternatives at every choice point
        self.calls = []        # one record per RNG call: {"fn", "n", "size", "p"}

    def choose(self, n_alt):
        i = len(self.choices)
        c = self.prefix[i] if i < len(self.prefix) else 0
        if c >= n_alt:
            raise Divergence("choice %d at point %d but only %d alternatives" % (c, i, n_alt))
        self.choices.append(c)
        self.points.append(n_alt)
        return c


def _choice(script, fn, a, size=None, replace=True, p=None, **kw):
    if not replace or kw:
        raise UnownedRandomness("choice called with unsupported arguments %r" % (kw,))
    arr = np.arange(a) if isinstance(a, (int, np.integer)) else np.asarray(a) if not isinstance(a, np.ndarray) else a
    n = len(arr)
    if p is None:
        pp = np.full(n, 1.0 / n)
    else:
        pp = np.asarray(p, dtype=float).reshape(-1)
        # what numpy itself enforces
        if len(pp) != n:
            raise ValueError("'a' and 'p' must have same size")
        if np.any(pp < 0) or np.any(np.isnan(pp)):
            raise ValueError("probabilities are not non-negative")
        if abs(pp.sum() - 1.0) > 1e-8:
            raise ValueError("probabilities do not sum to 1")
    # entries whose probability is below 1e-12 (floating-point dust such as |<10|HH|00>|^2 = 1e-34) are never offered: no real
    # generator would return them within the lifetime of the universe, and offering them would raise false alarms
    support = [i for i in range(n) if pp[i] > 1e-12]
    k = 1 if size is None else int(size)
    idx = [support[script.choose(len(support))] for _ in range(k)]
    script.calls.append({"fn": fn, "n": n, "size": size, "p": pp.tolist(), "idx": idx})
    if size is None:
        return arr[idx[0]]
    return arr[np.array(idx, dtype=int)] if k else arr[:0]


class _Gen:
    def __init__(self, script, seed):
        self.script, self.seed = script, seed

    def choice(self, a, size=None, replace=True, p=None, **kw):
        return _choice(self.script, "default_rng.choice", a, size, replace, p, **kw)

    def __getattr__(self, name):
        raise UnownedRandomness("Generator.%s" % name)


def _trap(name):
    def f(*a, **k):
        raise UnownedRandomness(name)
    return f


@contextlib.contextmanager
def owned_rng(script):
    saved = {}
    names = {"choice": lambda *a, **k: _choice(script, "np.random.choice", *a, **k), "default_rng": lambda seed=None: _Gen(script, seed)}
    for nm in ("seed", "rand", "random", "randint", "randn", "uniform", "normal", "shuffle", "permutation", "random_sample", "multinomial"):
        names[nm] = _trap("np.random." + nm)
    pysaved = {}
    try:
        for nm, fn in names.items():
            saved[nm] = getattr(np.random, nm)
            setattr(np.random, nm, fn)
        for nm in ("random", "uniform", "randint", "sample", "choice", "shuffle", "choices"):
            pysaved[nm] = getattr(_pyrandom, nm)
            setattr(_pyrandom, nm, _trap("random." + nm))
        yield script
    finally:
        for nm, fn in saved.items():
            setattr(np.random, nm, fn)
        for nm, fn in pysaved.items():
            setattr(_pyrandom, nm, fn)


def explore(execute, bound=None, max_exec=200000):
    """Deviation-bounded enumeration of answer scripts.  execute(script) runs the real code once under owned_rng(script) and returns an
    observation; yields (choices, observation, script) for every execution with at most `bound` non-default answers (None = all).
    Prefixes are replayed on fresh objects; an impossible prefix raises Divergence."""
    n = 0
    stack = [([], 0)]
    while stack:
        prefix, devs = stack.pop()
        s = Script(prefix)
        obs = execute(s)
        n += 1
        if s.choices[:len(prefix)] != list(prefix):
            raise Divergence("replayed prefix %r became %r" % (prefix, s.choices))
        yield list(s.choices), obs, s
        if n >= max_exec:
            raise RuntimeError("execution cap %d hit" % max_exec)
        if bound is not None and devs + 1 > bound:
            continue
        for i in range(len(s.points) - 1, len(prefix) - 1, -1):
            for alt in range(s.points[i] - 1, 0, -1):
                stack.append((s.choices[:i] + [alt], devs + 1))
