"""Bounded exhaustive exploration engines.

E1  run_sections : every case of a finite, deterministically generated case list is executed on the
                   real code (sharded over worker processes) and judged by the section's oracle.
E2  bfs          : explicit-state breadth-first search over histories; a state is rebuilt by replaying
                   its history on fresh real objects, de-duplicated by a canonical snapshot.
E3  deviations   : deviation-bounded enumeration of environment answers (scripted RNG / predicates);
                   see mc/seams.py.  It produces ordinary E1 cases (one per answer script).

A case function returns a dict:
  ok      bool      property held on this case
  nt      bool      case is non-trivial by the section's rule          (default True)
  key     str       canonical identity of the case / state             (default json of the case)
  ops     int       number of real operations executed and compared    (default 1)
  out     str       coarse observed-outcome label (for distinct-outcome counting)
  sig     str       root-cause signature of a failure (matched against known_findings.json)
  msg, expected, observed   explanation of a failure
  skip    bool      case could not be judged for a reason the statement allows (counted separately)
  inconclusive str  harness-level problem (horizon, un-owned randomness): exit 2, never a pass
"""
import hashlib, itertools, json, multiprocessing as mp, os, signal, sys, time, traceback


_VERIF_DIR = os.path.dirname(os.path.dirname(os.path.abspath(__file__)))


class Horizon(Exception):
    pass


def _alarm(signum, frame):
    raise Horizon()


class Section:
    def __init__(self, name, cases, fn, horizon=None, chunk=None, desc="", horizon_is_violation=False):
        self.name, self.cases, self.fn, self.horizon, self.chunk, self.desc = name, cases, fn, horizon, chunk, desc
        # only for sections whose cases normally finish >100x faster than the horizon: "no answer at all" is then the defect itself
        self.horizon_is_violation = horizon_is_violation


def jdump(x):
    return json.dumps(x, sort_keys=True, default=str, separators=(",", ":"))


def khash(s):
    return hashlib.blake2b(s.encode(), digest_size=8).hexdigest()


_SECTIONS = {}


def _run_one(sec, case):
    t0 = time.time()
    if sec.horizon:
        signal.signal(signal.SIGALRM, _alarm)
        signal.setitimer(signal.ITIMER_REAL, sec.horizon)
    try:
        r = sec.fn(case)
    except Horizon:
        if getattr(sec, "horizon_is_violation", False):
            r = {"ok": False, "msg": "no result within %ss (normally well under a second): the computation does not terminate" % sec.horizon, "sig": "nontermination"}
        else:
            r = {"ok": False, "inconclusive": "horizon %ss exceeded" % sec.horizon}
    except Exception as e:  # a crash of the oracle/harness or an unexpected library exception
        tb = traceback.extract_tb(e.__traceback__)
        if tb and tb[-1].filename.startswith(_VERIF_DIR) and isinstance(e, (ImportError, NameError, AttributeError, KeyError, IndexError, TypeError, AssertionError, ValueError, ZeroDivisionError)):
            # raised by harness code itself (not inside the library): a harness error, never a verdict
            return {"ok": False, "inconclusive": "harness exception %s: %s at %s:%d" % (type(e).__name__, e, tb[-1].filename, tb[-1].lineno), "_t": time.time() - t0}
        r = {"ok": False, "msg": "unexpected exception %s: %s" % (type(e).__name__, e),
             "observed": traceback.format_exc()[-1500:], "sig": "exception:" + type(e).__name__}
    finally:
        if sec.horizon:
            signal.setitimer(signal.ITIMER_REAL, 0)
    r["_t"] = time.time() - t0
    return r


def _work(args):
    secname, start, cases = args
    sec = _SECTIONS[secname]
    agg = {"n": 0, "ops": 0, "nt": set(), "keys": set(), "fails": [], "outs": {}, "skips": 0, "incon": [], "samples": [],
           "slow": 0.0, "extra": {}}
    for off, case in enumerate(cases):
        r = _run_one(sec, case)
        idx = start + off
        agg["n"] += 1
        agg["ops"] += r.get("ops", 1)
        k = khash(r["key"] if r.get("key") is not None else jdump(case))
        agg["keys"].add(k)
        if r.get("skip"):
            agg["skips"] += 1
        elif r.get("nt", True):
            agg["nt"].add(khash(r["ntkey"]) if "ntkey" in r else k)
        o = r.get("out")
        if o is not None:
            agg["outs"][o] = agg["outs"].get(o, 0) + 1
        for ek, ev in r.get("extra", {}).items():
            agg["extra"][ek] = agg["extra"].get(ek, 0) + ev
        if r.get("inconclusive"):
            agg["incon"].append((idx, case, r["inconclusive"]))
        elif not r.get("ok") and not r.get("skip"):
            if len(agg["fails"]) < 50:
                agg["fails"].append((idx, case, {k2: r.get(k2) for k2 in ("msg", "expected", "observed", "sig")}))
            else:
                agg["extra"]["more_failures"] = agg["extra"].get("more_failures", 0) + 1
        if off == 0 and len(agg["samples"]) < 1:
            agg["samples"].append({"case": case, "out": o})
        agg["slow"] = max(agg["slow"], r["_t"])
        agg["cpu"] = agg.get("cpu", 0.0) + r["_t"]
    return secname, agg


def _shard_worker(fn, tasks, conn):
    try:
        conn.send([fn(t) for t in tasks])
    finally:
        conn.close()


def pmap(fn, tasks, procs):
    """Deterministic sharding: worker w executes tasks[w::procs] in that order, in one process of its own, so which cases share a
    process (and therefore any module-level state of the library) is a function of the task list alone - never of OS scheduling.
    Results come back in task order."""
    if procs <= 1 or len(tasks) <= 1:
        return [fn(t) for t in tasks]
    procs = min(procs, len(tasks))
    ctx = mp.get_context("fork")
    workers = []
    for w in range(procs):
        rd, wr = ctx.Pipe(duplex=False)
        pr = ctx.Process(target=_shard_worker, args=(fn, tasks[w::procs], wr))
        pr.start()
        wr.close()
        workers.append((pr, rd))
    out = [None] * len(tasks)
    for w, (pr, rd) in enumerate(workers):
        try:
            res = rd.recv()
        except EOFError:
            raise RuntimeError("worker %d died without a result (exit code %s)" % (w, pr.exitcode))
        pr.join()
        for j, r in enumerate(res):
            out[w + j * procs] = r
    return out


class Run:
    """Accumulates what one ./check invocation covered."""

    def __init__(self, prop, tier, seed, procs=None):
        self.prop, self.tier, self.seed = prop, tier, seed
        self.procs = procs or int(os.environ.get("VERIF_PROCS", "16"))
        self.t0 = time.time()
        self.sections = {}
        self.failures = []     # (secname, idx, case, info)
        self.inconclusive = []
        self.samples = []
        self.exhaustive = True
        self.notes = []

    def _sec(self, name):
        return self.sections.setdefault(name, {"evaluations": 0, "ops": 0, "states": set(), "nontrivial": set(),
                                               "outcomes": {}, "skipped": 0, "slowest_case_s": 0.0, "extra": {}})

    def run_sections(self, sections):
        for sec in sections:
            _SECTIONS[sec.name] = sec
        # cases are materialised in the parent so that every worker sees the same enumeration
        tasks = []
        for sec in sections:
            cases = list(sec.cases() if callable(sec.cases) else sec.cases)
            sec._n = len(cases)
            self._sec(sec.name)["desc"] = sec.desc
            chunk = sec.chunk or max(1, min(200, len(cases) // (self.procs * 4) or 1))
            for s in range(0, len(cases), chunk):
                tasks.append((sec.name, s, cases[s:s + chunk]))
        # VERIF_SEED only rotates the order in which shards are started; every shard is always run
        if tasks:
            rot = self.seed % len(tasks)
            tasks = tasks[rot:] + tasks[:rot]
        results = pmap(_work, tasks, self.procs)
        for secname, agg in results:
            self.merge(secname, agg)

    def merge(self, secname, agg):
        s = self._sec(secname)
        s["evaluations"] += agg["n"]
        s["ops"] += agg["ops"]
        s["states"] |= agg["keys"]
        s["nontrivial"] |= agg["nt"]
        s["skipped"] += agg["skips"]
        s["slowest_case_s"] = max(s["slowest_case_s"], agg["slow"])
        s["case_time_s"] = s.get("case_time_s", 0.0) + agg.get("cpu", 0.0)
        for o, c in agg["outs"].items():
            s["outcomes"][o] = s["outcomes"].get(o, 0) + c
        for k, v in agg["extra"].items():
            s["extra"][k] = s["extra"].get(k, 0) + v
        for idx, case, info in agg["fails"]:
            self.failures.append((secname, idx, case, info))
        for idx, case, why in agg["incon"]:
            self.inconclusive.append((secname, idx, case, why))
        for smp in agg["samples"]:
            if sum(1 for x in self.samples if x["section"] == secname) < 2:
                self.samples.append({"section": secname, **smp})

    # ---- E2 -------------------------------------------------------------------------------------
    def bfs(self, name, roots, events, step, depth, desc="", horizon=None):
        """roots: list of root descriptors; events(root)->list of JSON events; step({'root','hist'}) -> case dict
        with 'key' = canonical snapshot of the state reached (None/'dead' => do not expand)."""
        seen = {}
        frontier = []
        level_cases = [{"root": r, "hist": []} for r in roots]
        total_states = 0
        for d in range(depth + 1):
            sec = Section("%s@depth%d" % (name, d), level_cases, step, horizon=horizon, desc=desc)
            _SECTIONS[sec.name] = sec
            chunk = max(1, min(100, len(level_cases) // (self.procs * 4) or 1))
            tasks = [(sec.name, s, level_cases[s:s + chunk]) for s in range(0, len(level_cases), chunk)]
            _BFS_KEYS.clear()
            results = pmap(_work_bfs, tasks, self.procs)
            newfront = []
            for secname, agg, keys in sorted(results, key=lambda x: x[2][0][0] if x[2] else -1):
                self.merge(name, agg)
                for idx, key, expand in keys:
                    if key is None:
                        continue
                    if key not in seen:
                        seen[key] = level_cases[idx]
                        if expand:
                            newfront.append(level_cases[idx])
            if d == depth:
                break
            level_cases = [{"root": c["root"], "hist": c["hist"] + [ev]} for c in newfront for ev in events(c)]
            if not level_cases:
                break
        s = self._sec(name)
        s["states"] = set(khash(k) for k in seen)
        s["bfs_depth"] = depth
        s["desc"] = desc
        return seen

    # ---- verdict --------------------------------------------------------------------------------
    def coverage(self):
        ev = sum(s["evaluations"] for s in self.sections.values())
        states = sum(len(s["states"]) for s in self.sections.values())
        nt = sum(len(s["nontrivial"]) for s in self.sections.values())
        trans = sum(s["ops"] for s in self.sections.values())
        per = {}
        for n, s in self.sections.items():
            per[n] = {"evaluations": s["evaluations"], "states": len(s["states"]), "distinct_nontrivial": len(s["nontrivial"]),
                      "transitions": s["ops"], "skipped": s["skipped"], "distinct_outcomes": len(s["outcomes"]),
                      "slowest_case_s": round(s["slowest_case_s"], 3), "case_time_total_s": round(s.get("case_time_s", 0.0), 1)}
            if s.get("desc"):
                per[n]["what"] = s["desc"]
            if s["extra"]:
                per[n]["extra"] = s["extra"]
            if "bfs_depth" in s:
                per[n]["bfs_depth"] = s["bfs_depth"]
            if 0 < len(s["outcomes"]) <= 12:
                per[n]["outcomes"] = s["outcomes"]
        return {"evaluations": ev, "states": states, "transitions": trans, "traces_validated_against_impl": ev,
                "distinct_nontrivial": nt, "exhaustive": self.exhaustive, "sections": per, "samples": self.samples[:12]}


_BFS_KEYS = {}


def _work_bfs(args):
    secname, start, cases = args
    sec = _SECTIONS[secname]
    keys = []
    agg = {"n": 0, "ops": 0, "nt": set(), "keys": set(), "fails": [], "outs": {}, "skips": 0, "incon": [], "samples": [],
           "slow": 0.0, "extra": {}}
    for off, case in enumerate(cases):
        r = _run_one(sec, case)
        idx = start + off
        agg["n"] += 1
        agg["ops"] += r.get("ops", 1)
        key = r.get("key")
        keys.append((idx, key, r.get("expand", True) and r.get("ok", False) or r.get("expand_anyway", False)))
        if key is not None:
            k = khash(key)
            agg["keys"].add(k)
            if r.get("nt", True):
                agg["nt"].add(k)
        o = r.get("out")
        if o is not None:
            agg["outs"][o] = agg["outs"].get(o, 0) + 1
        for ek, ev in r.get("extra", {}).items():
            agg["extra"][ek] = agg["extra"].get(ek, 0) + ev
        if r.get("inconclusive"):
            agg["incon"].append((idx, case, r["inconclusive"]))
        elif not r.get("ok"):
            if len(agg["fails"]) < 50:
                agg["fails"].append((idx, case, {k2: r.get(k2) for k2 in ("msg", "expected", "observed", "sig")}))
        if off == 0 and start == 0:
            agg["samples"].append({"case": case, "out": o})
        agg["slow"] = max(agg["slow"], r["_t"])
        agg["cpu"] = agg.get("cpu", 0.0) + r["_t"]
    return secname, agg, keys
