import json, os, time

VERIF = os.path.dirname(os.path.dirname(os.path.abspath(__file__)))
OUT = os.environ.get("VERIF_OUT") or VERIF  # mutant runs redirect evidence/replays away from /verif


def write_evidence(run, cov, violations, assumptions):
    os.makedirs(os.path.join(OUT, "evidence"), exist_ok=True)
    ev = {"property_id": run.prop, "tier": run.tier, "seed": run.seed, "level": "model_checking",
          "coverage": cov, "assumptions": list(assumptions), "wall_s": round(time.time() - run.t0, 2),
          "violations": violations}
    path = os.path.join(OUT, "evidence", run.prop + ".json")
    tmp = path + ".tmp"
    json.dump(ev, open(tmp, "w"), indent=1, default=str)
    os.replace(tmp, path)
    return path
