import fnmatch, importlib, json, os, sys, time

VERIF = os.path.dirname(os.path.dirname(os.path.abspath(__file__)))
REPO = os.environ.get("VERIF_REPO", "/repo")
sys.path.insert(0, os.path.join(REPO, "src"))
os.environ.setdefault("ORQUESTRA_QUANTUM_VERIF", "1")

from mc import engine  # noqa: E402
from mc.evidence import write_evidence  # noqa: E402

PROPS = ["C%02d" % i for i in range(1, 21)]


def load_findings():
    p = os.path.join(VERIF, "known_findings.json")
    if not os.path.exists(p):
        return []
    return json.load(open(p))["findings"]


def case_order(f):
    return (f[0], f[1])


def main(argv):
    if not argv:
        print(__doc__ or "usage: ./check <ID> [quick|thorough] | --replay <file> | --selftest")
        return 2
    if argv[0] == "--selftest":
        from mc.ref import selftest
        return selftest.main()
    if argv[0] == "--replay":
        return replay(argv[1])
    prop = argv[0].upper()
    tier = argv[1] if len(argv) > 1 else os.environ.get("VERIF_TIER", "quick")
    if tier not in ("quick", "thorough"):
        tier = "quick"
    seed = int(os.environ.get("VERIF_SEED", "0") or 0)
    import orquestra.quantum  # noqa: F401
    src = os.path.dirname(list(orquestra.quantum.__path__)[0])
    if os.path.realpath(src) != os.path.realpath(os.path.join(REPO, "src", "orquestra")):
        print("HARNESS-ERROR: orquestra imported from %s, expected %s/src" % (src, REPO))
        return 2
    mod = importlib.import_module("mc.props." + prop.lower())
    run = engine.Run(prop, tier, seed)
    mod.run(run)
    return finish(run, mod)


def finish(run, mod):
    prop = run.prop
    findings = [f for f in load_findings() if f["property"] == prop and f["status"] == "open"]
    known_hits, violations = {}, []
    order = {n: i for i, n in enumerate(run.sections)}
    for f in sorted(run.failures, key=lambda f: (order.get(f[0], 99), f[1])):
        secname, idx, case, info = f
        sig = "%s|%s" % (secname, info.get("sig") or "")
        hit = None
        for kf in findings:
            if any(fnmatch.fnmatchcase(sig, pat) for pat in kf["signatures"]):
                hit = kf
                break
        if hit:
            known_hits.setdefault(hit["id"], []).append(f)
        else:
            violations.append(f)
    if os.environ.get("VERIF_DUMP_FAILS"):
        for secname, idx, case, info in sorted(run.failures, key=lambda f: (order.get(f[0], 99), f[1])):
            print("FAIL %s sig=%s case=%s" % (secname, info.get("sig"), engine.jdump(case)[:300]))
    for kid, fs in known_hits.items():
        kf = [k for k in findings if k["id"] == kid][0]
        print("KNOWN-FINDING: property=%s %s (%s; %d cases in this run, e.g. %s)" % (
            prop, kf["what"], kid, len(fs), engine.jdump(fs[0][2])[:160]))
    cov = run.coverage()
    cov["rule"] = getattr(mod, "RULE", "")
    cov["known_findings_hit"] = {k: len(v) for k, v in known_hits.items()}
    cov["bounds"] = getattr(mod, "BOUNDS", {}).get(run.tier, getattr(mod, "BOUNDS", {}))
    if run.notes:
        cov["notes"] = run.notes
    rc = 0
    replay_path = None
    if violations:
        secname, idx, case, info = violations[0]
        rdir = os.path.join(os.environ.get("VERIF_OUT") or VERIF, "replays", prop)
        os.makedirs(rdir, exist_ok=True)
        body = {"property": prop, "section": secname, "case": case, **info,
                "how": "cd /verif && ./check --replay replays/%s/<this file>" % prop}
        replay_path = os.path.join(rdir, engine.khash(engine.jdump([secname, case])) + ".json")
        json.dump(body, open(replay_path, "w"), indent=1, default=str)
        print("violating case (first in simplest-first order) section=%s case=%s" % (secname, engine.jdump(case)[:400]))
        print("  msg: %s" % (info.get("msg"),))
        print("  expected: %s" % (str(info.get("expected"))[:400],))
        print("  observed: %s" % (str(info.get("observed"))[:400],))
        print("  (%d failing cases in total%s)" % (len(violations), ""))
        print("VIOLATION property=%s replay=%s" % (prop, replay_path))
        rc = 1
    if run.inconclusive and rc == 0:
        secname, idx, case, why = run.inconclusive[0]
        print("HARNESS-ERROR: inconclusive case section=%s case=%s: %s (%d such)" % (
            secname, engine.jdump(case)[:300], why, len(run.inconclusive)))
        rc = 2
    cov["inconclusive"] = len(run.inconclusive)
    write_evidence(run, cov, len(violations), getattr(mod, "ASSUMPTIONS", []))
    print("%s %s: evaluations=%d states=%d transitions=%d nontrivial=%d violations=%d known=%d wall=%.1fs exit=%d" % (
        prop, run.tier, cov["evaluations"], cov["states"], cov["transitions"], cov["distinct_nontrivial"],
        len(violations), sum(len(v) for v in known_hits.values()), time.time() - run.t0, rc))
    return rc


def replay(path):
    body = json.load(open(path))
    prop = body["property"]
    mod = importlib.import_module("mc.props." + prop.lower())
    fn = mod.FUNCS[body["section"].split("@")[0]]
    r = fn(body["case"])
    print(json.dumps({k: v for k, v in r.items() if k != "key"}, indent=1, default=str)[:4000])
    if r.get("ok") or r.get("skip"):
        print("replay: case passes on this tree")
        return 0
    print("VIOLATION property=%s replay=%s" % (prop, os.path.abspath(path)))
    return 1


if __name__ == "__main__":
    sys.exit(main(sys.argv[1:]))
