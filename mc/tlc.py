"""Runs TLC on /verif/models/RunnerCounters.tla, dumps the complete labelled state graph and returns every edge as a replayable trace:
(labels of a shortest path from the initial state, edge label, source counters, target counters)."""
import collections
import os
import re
import shutil
import subprocess
import tempfile

VERIF = os.path.dirname(os.path.dirname(os.path.abspath(__file__)))


def run_tlc(spec="RunnerCounters"):
    T = tempfile.mkdtemp(prefix="tlc.", dir="/var/tmp")
    try:
        for ext in (".tla", ".cfg"):
            shutil.copy(os.path.join(VERIF, "models", spec + ext), T)
        p = subprocess.run(["tlc", "-workers", "1", "-noGenerateSpecTE", "-metadir", os.path.join(T, "meta"), "-deadlock", "-dump", "dot,actionlabels", os.path.join(T, "out.dot"), spec],
                           cwd=T, capture_output=True, text=True, timeout=600)
        out = p.stdout + p.stderr
        m = re.search(r"(\d+) states generated, (\d+) distinct states found, (\d+) states left on queue", out)
        ok = "Model checking completed. No error has been found" in out and m and m.group(3) == "0"
        dot = open(os.path.join(T, "out.dot")).read() if os.path.exists(os.path.join(T, "out.dot")) else ""
        return ok, out, dot, (int(m.group(1)), int(m.group(2))) if m else (0, 0)
    finally:
        shutil.rmtree(T, ignore_errors=True)


def parse_dot(dot):
    nodes, edges, init = {}, [], None
    for line in dot.splitlines():
        m = re.match(r'^(-?\d+) -> (-?\d+) \[label="([^"]*)"', line)
        if m:
            edges.append((m.group(1), m.group(2), m.group(3)))
            continue
        m = re.match(r'^(-?\d+) \[label="([^"]*)"(.*)\]', line)
        if m:
            vals = dict(re.findall(r"(\w+) = (\d+)", m.group(2).replace("\\n", " ").replace("\\\\", "")))
            nodes[m.group(1)] = {k: int(v) for k, v in vals.items()}
            if "style = filled" in m.group(3) and init is None:
                init = m.group(1)
    return nodes, edges, init


def traces(nodes, edges, init):
    """one trace per edge: shortest label path from init to the edge's source"""
    adj = collections.defaultdict(list)
    for a, b, l in edges:
        adj[a].append((b, l))
    path = {init: []}
    q = collections.deque([init])
    while q:
        a = q.popleft()
        for b, l in adj[a]:
            if b not in path:
                path[b] = path[a] + [l]
                q.append(b)
    out = []
    for a, b, l in edges:
        if a in path:
            out.append({"path": path[a], "label": l, "src": nodes[a], "dst": nodes[b]})
    return out, len(path)
