"""Trigonometric cut-off: from a finite grid to all real parameters (DESIGN.md 3.3).

degree(expr, syms) walks an expression returned by the REAL code for symbolic real parameters and returns, per symbol, an upper bound on
its degree as a trigonometric polynomial in the half angle s = theta/2 - or None when the expression leaves the certified grammar
(numbers, I, Add, Mul, non-negative integer Pow, sin/cos/exp(I*l) of a real-linear form l whose coefficients are multiples of 1/2,
negative integer powers of such an exp).  A trigonometric polynomial of degree <= D in s that vanishes on N >= 2D+1 equispaced points of a
full period of s (theta in [0, 4*pi)) vanishes identically; if it is <= eps on the grid, all Fourier coefficients are <= eps, so
sup|f| <= eps * prod(2 D_i + 1)."""
import itertools

import numpy as np
import sympy


def _linear_half_degrees(arg, syms, imaginary):
    """arg (or arg/I when `imaginary`) must be a real-linear form in syms with numeric coefficients; returns {sym: |2c|} or None"""
    arg = sympy.expand(arg)
    try:
        poly = sympy.Poly(arg, *syms) if syms else None
    except sympy.PolynomialError:
        return None
    if poly is None:
        return {} if not arg.free_symbols else None
    if poly.total_degree() > 1:
        return None
    out = {}
    for monom, coeff in poly.terms():
        if coeff.free_symbols:
            return None
        c = complex(coeff)
        if imaginary:
            c = c / 1j
        if abs(c.imag) > 1e-12:
            return None
        if sum(monom) == 0:
            continue
        d = abs(2 * c.real)
        if abs(d - round(d)) > 1e-9:
            return None
        out[syms[monom.index(1)]] = int(round(d))
    return out


def degree(e, syms):
    """{sym: degree bound} or None"""
    zero = {s: 0 for s in syms}
    e = sympy.sympify(e)
    if not e.free_symbols:
        return dict(zero)
    if isinstance(e, sympy.Add):
        ds = [degree(a, syms) for a in e.args]
        if any(d is None for d in ds):
            return None
        return {s: max(d[s] for d in ds) for s in syms}
    if isinstance(e, sympy.Mul):
        ds = [degree(a, syms) for a in e.args]
        if any(d is None for d in ds):
            return None
        return {s: sum(d[s] for d in ds) for s in syms}
    if isinstance(e, sympy.Pow):
        base, ex = e.args
        if ex.free_symbols:
            return None
        if base == sympy.E or isinstance(base, sympy.exp):
            pass
        if ex.is_Integer and int(ex) >= 0:
            d = degree(base, syms)
            return None if d is None else {s: d[s] * int(ex) for s in syms}
        if ex.is_Integer and isinstance(base, sympy.exp):
            d = degree(base, syms)
            return None if d is None else {s: d[s] * abs(int(ex)) for s in syms}
        return None
    if isinstance(e, (sympy.sin, sympy.cos)):
        d = _linear_half_degrees(e.args[0], list(syms), imaginary=False)
        return None if d is None else {**zero, **d}
    if isinstance(e, sympy.exp):
        d = _linear_half_degrees(e.args[0], list(syms), imaginary=True)
        return None if d is None else {**zero, **d}
    return None


def matrix_degree(M, syms):
    out = {s: 0 for s in syms}
    for x in M:
        d = degree(x, syms)
        if d is None:
            return None
        for s in syms:
            out[s] = max(out[s], d[s])
    return out


def grid_points(n_points):
    """equispaced angles covering a full period of the half angle: theta_j = 4*pi*j/N (shifted off 0 so that no sample is special)"""
    return [4 * np.pi * j / n_points + 0.1234 for j in range(n_points)]


def tensor_grid(degrees, factor=2, extra=0):
    """degrees: list of per-symbol degree bounds of the MATRIX; the residual checked has degree factor*deg (+extra)"""
    axes = [grid_points(2 * (factor * d + extra) + 1) for d in degrees]
    return list(itertools.product(*axes))


def selftest():
    t, p = sympy.symbols("theta phi", real=True)
    assert degree(sympy.cos(t / 2), [t]) == {t: 1}
    assert degree(sympy.exp(-sympy.I * t / 2) * sympy.sin(p), [t, p]) == {t: 1, p: 2}
    assert degree(sympy.exp(-1.0 * sympy.I * (p + t)), [t, p]) == {t: 2, p: 2}
    assert degree(sympy.cos(t / 2) ** 2 + 1, [t]) == {t: 2}
    assert degree(t * sympy.cos(t), [t]) is None and degree(sympy.cos(t ** 2), [t]) is None and degree(sympy.cos(t / 3), [t]) is None
    assert degree(sympy.sqrt(sympy.cos(t)), [t]) is None
    assert len(grid_points(5)) == 5
