"""Plain-Python demonstrations of defects D1..D14, D17 (DESIGN.md section 5) against the real code.
Run: /venv/bin/python /verif/notes/defect_probes.py   -> prints FAIL/ok per defect (FAIL = defect present)."""
import signal, sys, json, tempfile, os
import numpy as np, sympy
from orquestra.quantum import circuits as C
from orquestra.quantum.operators import PauliTerm, PauliSum
res = {}
def probe(name):
    def deco(f):
        def handler(*a): raise TimeoutError()
        signal.signal(signal.SIGALRM, handler); signal.alarm(20)
        try:
            ok = f()
            res[name] = 'ok' if ok else 'FAIL'
        except BaseException as e:
            res[name] = 'FAIL (%s: %s)' % (type(e).__name__, str(e)[:60])
        finally:
            signal.alarm(0)
        return f
    return deco
@probe('D1 H.matrix computable')
def _(): return C.H.matrix.shape == (2, 2)
@probe('D2 empty circuit unitary')
def _(): return np.allclose(np.array(C.Circuit([], n_qubits=2).to_unitary(), dtype=complex), np.eye(4))
gd = C.CustomGateDefinition('cg', sympy.Matrix([[sympy.exp(sympy.I*sympy.Symbol('alpha')), 0], [0, sympy.exp(sympy.I*sympy.Symbol('beta')*2)]]), (sympy.Symbol('alpha'), sympy.Symbol('beta')))
@probe('D3 wrapped custom gate serde')
def _():
    c = C.Circuit([gd(0.1, 0.2).dagger(0)])
    return C.circuit_from_dict(json.loads(json.dumps(C.to_dict(c)))) == c
@probe('D4 custom gate foreign symbol params serde')
def _():
    c = C.Circuit([gd(sympy.Symbol('gamma'), sympy.Symbol('x[3]'))(0)])
    d = C.circuit_from_dict(json.loads(json.dumps(C.to_dict(c))))
    return d == c and d.free_symbols == c.free_symbols
@probe('D5 custom gate swapped symbols')
def _():
    a, b = sympy.symbols('alpha beta')
    m = gd(b, a).matrix
    return m.free_symbols == {a, b}
@probe('D6 sparse of empty sum')
def _():
    from orquestra.quantum.operators import get_sparse_operator
    return get_sparse_operator(PauliSum(), 1).shape == (2, 2)
@probe('D7 parse printed constant')
def _():
    t = PauliTerm('I0', 2.5)
    return PauliTerm(str(t)) == t
@probe('D8 nmeas estimate without frame_meas')
def _():
    from orquestra.quantum.utils import save_nmeas_estimate, load_nmeas_estimate
    d = tempfile.mkdtemp(dir='/var/tmp'); p = os.path.join(d, 'f.json')
    try:
        save_nmeas_estimate(1.5, 3, p); return load_nmeas_estimate(p)[:2] == (1.5, 3)
    finally:
        import shutil; shutil.rmtree(d)
@probe('D9 rejected setitem rolled back')
def _():
    from orquestra.quantum.wavefunction import Wavefunction
    a, b = sympy.symbols('a b')
    wf = Wavefunction([a, b]).bind({a: 0.6, b: 0.8})
    try: wf[0] = 1
    except ValueError: pass
    return abs(complex(np.asarray(wf.amplitudes).ravel()[0]) - 0.6) < 1e-12
@probe('D10 tracker counts rejected batch')
def _():
    from orquestra.quantum.runners.trackers import MeasurementTrackingBackend
    from orquestra.quantum.runners.symbolic_simulator import SymbolicSimulator
    d = tempfile.mkdtemp(dir='/var/tmp'); cwd = os.getcwd(); os.chdir(d)
    try:
        t = MeasurementTrackingBackend(SymbolicSimulator(), 'raw')
        try: t.run_batch_and_measure([C.Circuit([C.X(0)])], -2)
        except ValueError: pass
        return t.n_circuits_executed == 0 and t.n_jobs_executed == 0
    finally:
        os.chdir(cwd); import shutil; shutil.rmtree(d)
@probe('D11 constant sum estimation')
def _():
    from orquestra.quantum.estimation import evaluate_non_measured_estimation_tasks
    from orquestra.quantum.api.estimation import EstimationTask
    t = EstimationTask(PauliSum([PauliTerm('I0', 2.0), PauliTerm('I0', 3.0)]), C.Circuit([C.X(0)]), 10)
    r = evaluate_non_measured_estimation_tasks([t])
    return abs(np.sum(r[0].values) - 5.0) < 1e-12
@probe('D12 negative imaginary coefficient rejected')
def _():
    from orquestra.quantum.evolution import time_evolution_for_term
    try: time_evolution_for_term(PauliTerm('Z0', 1 - 0.5j), 0.3); return False
    except ValueError: return True
@probe('D13 derivative for n_steps=2')
def _():
    from orquestra.quantum.evolution import time_evolution_derivatives, time_evolution
    H = PauliSum([PauliTerm('Z0', 1.0), PauliTerm('X0', 0.7).copy()]) if False else PauliTerm('Z0', 1.0) + PauliTerm('Y0', 0.7)
    O = np.array([[0, 1], [1, 0]], dtype=complex); t = 0.4; n = 2
    circs, facs = time_evolution_derivatives(H, t, n_steps=n)
    psi0 = np.array([1, 0], dtype=complex)
    def ev(c):
        U = np.array(c.to_unitary(), dtype=complex); p = U @ psi0; return (p.conj() @ O @ p).real
    lhs = sum(f * ev(c) for c, f in zip(circs, facs))
    h = 1e-5
    rhs = (ev(time_evolution(H, t + h, n_steps=n)) - ev(time_evolution(H, t - h, n_steps=n))) / (2 * h)
    return abs(lhs - rhs) < 1e-6
@probe('D14 subdistribution keeps source')
def _():
    from orquestra.quantum.distributions import MeasurementOutcomeDistribution
    d = MeasurementOutcomeDistribution({'00': 0.5, '11': 0.5}); d.subdistribution([0])
    return len(d.distribution_dict) == 2
@probe('D17 T.exp.matrix terminates')
def _(): return C.T.exp.matrix.shape == (2, 2)
for k, v in res.items(): print(f'{k:50s} {v}')
